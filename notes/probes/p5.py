import time, copy, pickle
from datetime import datetime, timedelta
import numpy as np, pandas as pd
from tradingenv.env import TradingEnv, TradingEnvXY
from tradingenv.transmitter import Transmitter
from tradingenv.events import EventNBBO
from tradingenv.contracts import Cash, ETF, ES, Rate, FutureChain
from tradingenv.spaces import BoxPortfolio
from tradingenv.broker.broker import Broker
from tradingenv.broker.trade import Trade
from tradingenv.broker.rebalancing import Rebalancing
from tradingenv.exchange import Exchange

def t(f,n=200):
    s=time.perf_counter()
    for _ in range(n): f()
    return (time.perf_counter()-s)/n*1e6

ex=Exchange(); t0=datetime(2020,1,1)
for c,p in ((Cash(),1),(Rate('FED funds rate'),0),(ETF('A'),100),(ES(2020,3),3000)):
    ex.process_EventNBBO(EventNBBO(t0,c,p,p))
b=Broker(ex,deposit=1e6)
print('transact us', t(lambda: b.transact(Trade(t0,ES(2020,3),1,3000,3000,b.fees))))
print('nlv us', t(lambda: b.net_liquidation_value()))
print('deepcopy broker us', t(lambda: copy.deepcopy(b)))
print('pickle roundtrip broker us', t(lambda: pickle.loads(pickle.dumps(b))))
k=[0]
def reb():
    k[0]+=1
    b.rebalance(Rebalancing([ETF('A'),ES(2020,3)],[0.3,0.2],time=t0+timedelta(seconds=k[0])))
print('rebalance us', t(reb))
print('quote us', t(lambda: ex.process_EventNBBO(EventNBBO(t0,ETF('A'),100,101))))

T=[datetime(2020,1,d) for d in (1,2,3,6)]
def mkenv():
    ev=[]
    for i,tt in enumerate(T):
        ev+= [EventNBBO(tt,ETF('A'),10+i,10+i), EventNBBO(tt,ETF('B'),1,1)]
    tr=Transmitter(T); tr.add_events(ev)
    env=TradingEnv(action_space=BoxPortfolio([ETF('A'),ETF('B')],low=-3,high=3),transmitter=tr)
    return env
print('env build us', t(mkenv,50))
env=mkenv()
def ep():
    env.reset(); d=False
    while not d: _,_,d,_=env.step(np.array([.5,.2]))
print('episode(3 steps) us', t(ep,50))

np.random.seed(0)
dates = pd.date_range('2022-01-03', periods=30, freq='B')
X = pd.DataFrame(np.random.normal(0, 1, [30, 2]), dates)
y = pd.DataFrame(100*(1+np.random.normal(0, 0.01, 30)).cumprod(), dates)
for tf in (None,'z-score','yeo-johnson'):
    print('XY build us', tf, t(lambda: TradingEnvXY(X,y,transformer=tf,window=2),5))
e=TradingEnvXY(X,y,transformer=None,window=2)
def ep2():
    e.reset(); d=False
    while not d: _,_,d,_=e.step(np.array([.5]))
print('XY episode us', t(ep2,5), len(e._transmitter.timesteps))

from datetime import datetime, timedelta
import numpy as np, pandas as pd, traceback
from tradingenv.env import TradingEnv
from tradingenv.transmitter import Transmitter
from tradingenv.events import EventNBBO
from tradingenv.contracts import Cash, ETF
from tradingenv.spaces import BoxPortfolio, DiscretePortfolio
T=[datetime(2020,1,d) for d in (1,2,3,6,7)]
ev=[]
for i,t in enumerate(T): ev+= [EventNBBO(t,ETF('A'),10+i,10+i), EventNBBO(t,ETF('B'),1,1)]
tr=Transmitter(T); tr.add_events(ev)
sp=DiscretePortfolio([ETF('A'),ETF('B')],[[0,0],[1,0],[0,1]])
print('null', repr(sp.null_action()), sp.null_action() in sp)
env=TradingEnv(action_space=sp,transmitter=tr,steps_delay=1)
env.reset()
try:
    for a in (1,2,1,2):
        o,r,d,i=env.step(a); print(r,d,env.broker.holdings_quantity, env.broker.track_record[-1].allocation)
except Exception as e: traceback.print_exc()
sp=BoxPortfolio([ETF('A'),ETF('B')], low=0.1, high=1)
print('box null', sp.null_action(), sp.null_action() in sp)
sp=BoxPortfolio([ETF('A'),ETF('B')], as_weights=False, low=0, high=100)
print('box null', sp.null_action(), sp.null_action() in sp)

# throwaway: C08 FIFO/latency prototype + C12 whole-lot second rebalance + C11 VX roll
import os, sys
sys.path.insert(0, os.environ.get('VERIF_REPO','/repo'))
import itertools, time
from datetime import datetime, timedelta
import numpy as np, pandas as pd
import tradingenv; print('using', tradingenv.__file__)
from tradingenv.env import TradingEnv
from tradingenv.transmitter import Transmitter
from tradingenv.events import EventNBBO
from tradingenv.contracts import ETF, ES, VX, NK, ZN, FutureChain, AbstractContract, Cash
from tradingenv.spaces import BoxPortfolio, DiscretePortfolio
A,B=ETF('A'),ETF('B')
G=[datetime(2020,1,6,10)+timedelta(minutes=i) for i in range(6)]
def stream(extra,L):
    ev=[]
    for i,g in enumerate(G):
        ev+=[EventNBBO(g,A,64+4*i,64+4*i+2),EventNBBO(g,B,128-4*i,128-4*i+2)]
    for j,(i,off) in enumerate(extra):
        ev.append(EventNBBO(G[i]+timedelta(seconds=off),A,200+8*j,200+8*j+2))
    return ev
bad=n=0; st=time.time()
ACTS_BOX=[np.array([.5,.25]),np.array([0.,1.]),np.array([.25,0.])]
ALLOCS=[[0,0],[.5,.25],[0,1.],[.25,0]]
for space in ('box','disc'):
  for d in (0,1,2,3):
    for L in (0,30):
      for extra in itertools.chain([()], [((i,o),) for i in range(5) for o in (1,30,31,59)]):
        ev=stream(extra,L)
        for seq in itertools.product(range(3),repeat=5):
            AbstractContract.now=datetime.min
            tr=Transmitter(G); tr.add_events(list(ev))
            sp=BoxPortfolio([A,B]) if space=='box' else DiscretePortfolio([A,B],ALLOCS)
            env=TradingEnv(sp,transmitter=tr,steps_delay=d,latency=L,initial_cash=4096)
            env.reset(); n+=1
            try:
                for k,a in enumerate(seq):
                    act = ACTS_BOX[a] if space=='box' else a+1
                    o,r,dn,info=env.step(act)
                    rb=info['_rebalancing']
                    # expected allocation
                    if k<d: exp={}
                    else:
                        w=ACTS_BOX[seq[k-d]] if space=='box' else np.array(ALLOCS[seq[k-d]+1])
                        exp={c:float(x) for c,x in zip((A,B),w) if x!=0}
                    got={c:float(x) for c,x in rb.allocation.items()}
                    if got!=exp: raise AssertionError(('alloc',k,got,exp))
                    # pricing: last quote of A with time <= G[k]+L
                    t=G[k]; qs=[(e.time,e.bid_price,e.ask_price) for e in ev if e.contract==A and e.time<=t+timedelta(seconds=L)]
                    qs.sort(key=lambda x:x[0]); lastq=qs[-1]
                    for trd in rb.trades:
                        if trd.contract==A and (trd.bid_price,trd.ask_price)!=(lastq[1],lastq[2]): raise AssertionError(('price',k,trd.bid_price,lastq))
            except Exception as e:
                bad+=1
                if bad<4: print('BAD',space,d,L,extra,seq,repr(e)[:200])
print('C08 executions',n,'bad',bad,round(time.time()-st,1),'s')

print('--- C12 whole-lot')
T=[datetime(2020,1,d) for d in (1,2,3,6)]
ev=[]
for t,p in zip(T,[10,10.1,10.2,10.3]): ev+= [EventNBBO(t,A,p,p), EventNBBO(t,B,1,1)]
tr=Transmitter(T); tr.add_events(ev)
env=TradingEnv(BoxPortfolio([A,B],fractional=False),transmitter=tr, initial_cash=1000); env.reset()
try:
    for _ in range(3): o,r,dn,i=env.step(np.array([.5,.0])); print([ (t.contract.symbol,t.quantity) for t in i['_rebalancing'].trades], env.broker.holdings_quantity)
except Exception as e: print('EXC',repr(e))

print('--- C11 VX chain roll')
try:
    ch=FutureChain(VX,'2019-01','2019-06'); print([(c.symbol,str(c.last_trading_date),str(c.expiry)) for c in ch.contracts])
    Tt=[t.to_pydatetime() for t in pd.bdate_range('2019-01-10',periods=40)]
    ev=[]
    for i,t in enumerate(Tt):
        for j,c in enumerate(ch.contracts):
            if t<=c.expiry: ev.append(EventNBBO(t,c,15+j+0.01*i,15.05+j+0.01*i))
    tr=Transmitter(Tt); tr.add_events(ev)
    env=TradingEnv(BoxPortfolio([ch],-1,1),transmitter=tr,initial_cash=1e6); env.reset(); dn=False; k=0
    while not dn:
        o,r,dn,i=env.step(np.array([-0.5 if k%7 else 0.5])); k+=1
        held={c.symbol:q for c,q in env.broker.holdings_quantity.items() if q!=0 and not isinstance(c,Cash)}
        lead=ch.lead_contract(i['_rebalancing'].time).symbol
        if set(held)-{lead}: print('NONLEAD HELD', i['_rebalancing'].time, held, lead)
    print('steps',k,'final held',held)
except Exception as e:
    import traceback; traceback.print_exc()

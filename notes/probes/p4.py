from datetime import datetime, timedelta
import numpy as np, pandas as pd, traceback
from tradingenv.env import TradingEnv
from tradingenv.transmitter import Transmitter
from tradingenv.events import EventNBBO, IEvent
from tradingenv.contracts import Cash, ETF, ES, VX, ZN, NK, FutureChain, AbstractContract
from tradingenv.spaces import BoxPortfolio

def mk(start, n, shift=0):
    chain=FutureChain(ES,'2019-03','2019-12')
    T=list(pd.bdate_range(start,periods=n))
    ev=[]
    for i,t in enumerate(T):
        for c in chain.contracts:
            if t<=c.expiry: ev.append(EventNBBO(t.to_pydatetime(),c,2800+i+shift+10*chain.contracts.index(c),2800+i+shift+10*chain.contracts.index(c)))
    tr=Transmitter([t.to_pydatetime() for t in T]); tr.add_events(ev)
    env=TradingEnv(action_space=BoxPortfolio([chain],low=-2,high=2),transmitter=tr, initial_cash=1e6)
    return env

def trace(env,steps):
    out=[]
    for _ in range(steps):
        o,r,d,info=env.step(np.array([1.0]))
        out.append((env.now(), r, {k.symbol:v for k,v in env.broker.holdings_quantity.items() if v!=0}))
        if d: break
    return out

print("ES last trading dates:", [(c.symbol,c.last_trading_date,c.expiry) for c in FutureChain(ES,'2019-03','2019-12').contracts])
a=mk('2019-03-01',30); a.reset(); ta=trace(a,29)
for x in ta: print(x)
print("---- interleaved with env starting in June")
a=mk('2019-03-01',30); b=mk('2019-06-03',30,shift=100)
a.reset(); b.reset()
ta2=[];tb2=[]
try:
    for i in range(29):
        ta2+=trace(a,1); tb2+=trace(b,1)
    print('alone==interleaved?', ta==ta2)
    for x,y in zip(ta,ta2):
        if x!=y: print('DIFF',x,y)
except Exception as e:
    traceback.print_exc()

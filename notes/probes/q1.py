# throwaway: C01/C05 BFS with Fraction ledger oracle; run against REPO given by env VERIF_REPO
import os, sys
sys.path.insert(0, os.environ.get('VERIF_REPO','/repo'))
import copy, time, pickle
from datetime import datetime
from collections import deque
from fractions import Fraction as Fr
import tradingenv; print('using', tradingenv.__file__)
from tradingenv.broker.broker import Broker
from tradingenv.broker.trade import Trade
from tradingenv.broker.fees import BrokerFees
from tradingenv.exchange import Exchange
from tradingenv.events import EventNBBO
from tradingenv.contracts import AbstractContract, Cash, Rate
class C(AbstractContract):
    def __init__(self, sym, mult, cash_req, margin_req):
        self._s=sym; self._m=mult; self._c=cash_req; self._mr=margin_req
    symbol=property(lambda s:s._s); multiplier=property(lambda s:s._m)
    cash_requirement=property(lambda s:s._c); margin_requirement=property(lambda s:s._mr)
UNIVERSES={'spot1+fut':(C('S',1.,1.,0.),C('F',2.,0.,0.25)), 'spot4+fut':(C('S4',4.,1.,0.),C('F',2.,0.,0.25)), 'fut+fut':(C('F',2.,0.,0.25),C('G',4.,0.,1.0)), 'etf+es':(C('E',1.,1.,0.),C('ES',50.,0.,0.1))}
t0=datetime(2020,1,1)
QUOTES=[(100.,100.),(100.,104.),(92.,96.),(112.,112.)]
TRADES=[1.,-1.,2.,-2.]
def run(uni, fees, depth):
    X,Y=UNIVERSES[uni]
    OPS=[('q',c,q) for c in (X,Y) for q in QUOTES]+[('t',c,d) for c in (X,Y) for d in TRADES]+[('m',),('v',)]
    ex=Exchange()
    for c,p in ((Cash(),1.),(Rate('FED funds rate'),0.)): ex.process_EventNBBO(EventNBBO(t0,c,p,p))
    for c in (X,Y): ex.process_EventNBBO(EventNBBO(t0,c,100.,100.))
    D=65536.
    b0=Broker(ex,deposit=D,fees=BrokerFees(proportional=fees[1],fixed=fees[0]))
    def canon(b):
        return (tuple(sorted((k.symbol,v+0.0) for k,v in b._holdings_quantity.items())),
            tuple(sorted((k.symbol,v+0.0) for k,v in b._holdings_margins.items() if v!=0)),
            tuple(sorted((k.symbol,v) for k,v in b._last_marking_to_market_price.items())),
            tuple((c.symbol,b.exchange[c].bid_price,b.exchange[c].ask_price) for c in (X,Y)))
    # ref: (K commissions, {sym:(q,B)})
    ref0=(Fr(0),{X.symbol:(Fr(0),Fr(0)),Y.symbol:(Fr(0),Fr(0))})
    def liq(b,c,q):
        bk=b.exchange[c]; return Fr(bk.bid_price) if q>0 else Fr(bk.ask_price)
    def ref_nlv(b,ref):
        K,pos=ref; v=Fr(D)-K
        for c in (X,Y):
            q,B=pos[c.symbol]; v+=Fr(c.multiplier)*((q*liq(b,c,q) if q!=0 else 0)-B)
        return v
    viol=[]; seen={canon(b0)}; fr=deque([(b0,ref0,[])]); trans=0
    while fr:
        b,ref,h=fr.popleft()
        if len(h)==depth: continue
        for op in OPS:
            nb=pickle.loads(pickle.dumps(b)); K,pos=ref; pos=dict(pos)
            if op[0]=='q': nb.exchange.process_EventNBBO(EventNBBO(t0,op[1],*op[2]))
            elif op[0]=='t':
                bk=nb.exchange[op[1]]; tr=Trade(t0,op[1],op[2],bk.bid_price,bk.ask_price,nb.fees); nb.transact(tr)
                px=Fr(bk.ask_price) if op[2]>0 else Fr(bk.bid_price)
                q,B=pos[op[1].symbol]; pos[op[1].symbol]=(q+Fr(op[2]),B+Fr(op[2])*px)
                K=K+Fr(fees[0])+Fr(fees[1])*abs(px*Fr(op[2])*Fr(op[1].multiplier))
            elif op[0]=='m': nb.marking_to_market()
            else: nb.net_liquidation_value(False)
            nref=(K,pos); trans+=1
            got=nb.net_liquidation_value(False); exp=ref_nlv(nb,nref)
            ok = abs(Fr(got)-exp) <= Fr(1,10**9)*max(1,abs(exp))
            # C05 margin invariant at observation point (we just valued)
            for c in (X,Y):
                q=pos[c.symbol][0]
                em = Fr(c.margin_requirement)*Fr(c.multiplier)*abs(q)*(liq(nb,c,q) if q!=0 else 0)
                gm = Fr(nb.holdings_margins.get(c,0.0))
                if abs(gm-em)>Fr(1,10**9)*max(1,abs(em)): ok=False
            if not ok and len(viol)<3: viol.append(([ (o[0],)+tuple(getattr(x,'symbol',x) for x in o[1:]) for o in h+[op]],float(got),float(exp)))
            if not ok: continue
            k=canon(nb)
            if k not in seen: seen.add(k); fr.append((nb,nref,h+[op]))
    return len(seen),trans,viol
depth=int(sys.argv[1])
for uni in UNIVERSES:
    for fees in ((0.,0.),(1.,1/64)):
        st=time.time(); s,t,v=run(uni,fees,depth); print(uni,fees,'states',s,'trans',t,'viol',len(v),round(time.time()-st,1),'s'); 
        for x in v[:2]: print('   ',x)

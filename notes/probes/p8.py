import numpy as np, pandas as pd, traceback, itertools
from tradingenv.env import TradingEnvXY
from tradingenv.contracts import Asset
import pandas_market_calendars as pmc
np.random.seed(1)
dates = pd.date_range('2022-01-03', periods=40, freq='B')   # includes 2022-01-17 MLK, 2022-02-21
hol = pmc.get_calendar('NYSE').holidays().holidays
print('holidays in range', [d for d in dates if np.datetime64(d) in set(hol)])
X = pd.DataFrame(np.round(np.random.normal(0, 1, [40, 2]),2), dates)
Y = pd.DataFrame({'A':100+np.arange(40.), 'B': 50+np.arange(40.)%7}, dates)
rate = pd.Series(0.01+0.001*np.arange(40), dates, name='r')
bad=0
for window,stride,tf,fold in itertools.product((1,2,3,5),(None,2),(None,'z-score'),(None,'late')):
    folds=None if fold is None else {'training-set':[dates[0],dates[19]],'late':[dates[20],dates[39]]}
    try:
        env=TradingEnvXY(X.copy(),Y.copy(),transformer=tf,window=window,stride=stride,spread=0.01,rate=rate.copy(),folds=folds, steps_delay=0, margin=0., fee=0, markup=0)
    except Exception as e:
        print('BUILD EXC',window,stride,tf,fold,type(e).__name__,e); continue
    obs=env.reset(fold or 'training-set')
    done=False; k=0
    while True:
        t=env.now()
        rows=env.X.loc[:t].iloc[-window:].values
        exp=rows[::-(stride or 1)][::-1]
        ok = obs.shape==exp.shape and np.array_equal(obs,exp)
        # quotes
        for c in env.Y.columns:
            p=env.Y.loc[t,c]; b=env.exchange[c]
            if not (np.isclose(b.bid_price,p*(1-0.005)) and np.isclose(b.ask_price,p*(1+0.005))): ok=False; print('quote mismatch',t,c,b,p)
        rb=env.exchange[env._broker_fees.interest_rate]
        if not np.isclose(rb.mid_price, rate.loc[:t].iloc[-1]): print('rate mismatch', t, rb, rate.loc[t]); ok=False
        if np.datetime64(t) in set(hol) or t not in Y.index: print('bad step date',t); ok=False
        if not ok:
            bad+=1; print('MISMATCH',window,stride,tf,fold,t,'\nobs',obs,'\nexp',exp); break
        if done: break
        obs,r,done,info=env.step(np.array([0.3,0.3])); k+=1
    print('cfg',window,stride,tf,fold,'steps',k,'first',env._transmitter._steps[0],'ok' )
print('bad',bad)

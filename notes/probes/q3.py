# throwaway: C10 interleaving prototype
import os, sys
sys.path.insert(0, os.environ.get('VERIF_REPO','/repo'))
import itertools, time
from datetime import datetime, timedelta
import numpy as np, pandas as pd
import tradingenv; print('using', tradingenv.__file__)
from tradingenv.env import TradingEnv
from tradingenv.transmitter import Transmitter
from tradingenv.events import EventNBBO
from tradingenv.contracts import ETF, ES, FutureChain, AbstractContract
from tradingenv.spaces import BoxPortfolio
from tradingenv.library import FeaturePrices
def mk_chain(start, n, shift):
    chain=FutureChain(ES,'2019-03','2019-12')
    T=[t.to_pydatetime() for t in pd.bdate_range(start,periods=n)]
    ev=[]
    for i,t in enumerate(T):
        for j,c in enumerate(chain.contracts):
            if t<=c.expiry: p=2800+i+shift+10*j; ev.append(EventNBBO(t,c,p,p+1))
    tr=Transmitter(T); tr.add_events(ev)
    return TradingEnv(BoxPortfolio([chain],-2,2),transmitter=tr,initial_cash=1e6,state=[FeaturePrices([chain],name='p')])
def mk_etf(start,n,shift):
    T=[t.to_pydatetime() for t in pd.bdate_range(start,periods=n)]
    ev=[EventNBBO(t,ETF(s),10+i+shift+k,10.5+i+shift+k) for i,t in enumerate(T) for k,s in enumerate('AB')]
    tr=Transmitter(T); tr.add_events(ev)
    return TradingEnv(BoxPortfolio([ETF('A'),ETF('B')],-2,2),transmitter=tr,state=[FeaturePrices([ETF('A'),ETF('B')],name='p')])
def call(env,c):
    if c[0]=='reset':
        o=env.reset(); return ('reset', repr({k:v.tolist() for k,v in o.items()}))
    o,r,d,i=env.step(np.array(c[1])); 
    return ('step',repr({k:v.tolist() for k,v in o.items()}),float(r).hex(),d,tuple(sorted((k.symbol,float(v).hex()) for k,v in env.broker.holdings_quantity.items())), str(env.now()))
def alone(mk,script):
    AbstractContract.now=datetime.min
    env=mk(); return [call(env,c) for c in script]
def interleavings(n,m):
    for pos in itertools.combinations(range(n+m),n):
        s=['B']*(n+m)
        for p in pos: s[p]='A'
        yield s
def test(name,mkA,sA,mkB,sB):
    ta=alone(mkA,sA); tb=alone(mkB,sB); n=0; bad=0; first=None
    for sch in interleavings(len(sA),len(sB)):
        AbstractContract.now=datetime.min
        a=mkA(); b=mkB(); ia=ib=0; oa=[];ob=[]
        try:
            for w in sch:
                if w=='A': oa.append(call(a,sA[ia])); ia+=1
                else: ob.append(call(b,sB[ib])); ib+=1
            ok = oa==ta and ob==tb
        except Exception as e:
            ok=False; oa=repr(e)
        n+=1
        if not ok:
            bad+=1
            if first is None: first=(''.join(sch), oa if isinstance(oa,str) else [x for x,y in zip(oa,ta) if x!=y][:1])
    print(name,'schedules',n,'bad',bad, first)
sc1=[('reset',),('step',[1.0]),('step',[1.0]),('step',[-0.5]),('step',[1.0])]
sc2=[('reset',),('step',[1.0,0.5]),('step',[0.2,0.2]),('step',[-0.5,1]),('step',[1.0,0])]
st=time.time()
test('chain(mar) x chain(jun)', lambda: mk_chain('2019-03-05',6,0), sc1, lambda: mk_chain('2019-06-10',6,100), sc1)
test('chain(mar) x chain(mar shifted)', lambda: mk_chain('2019-03-05',6,0), sc1, lambda: mk_chain('2019-03-01',6,50), sc1)
test('chain x etf', lambda: mk_chain('2019-03-05',6,0), sc1, lambda: mk_etf('2019-06-10',6,0), sc2)
test('etf x etf', lambda: mk_etf('2019-03-05',6,0), sc2, lambda: mk_etf('2019-06-10',6,3), sc2)
print(round(time.time()-st,1),'s')

import cProfile, pstats, numpy as np, pandas as pd
from tradingenv.env import TradingEnvXY
np.random.seed(0)
dates = pd.date_range('2022-01-03', periods=30, freq='B')
X = pd.DataFrame(np.random.normal(0, 1, [30, 2]), dates)
y = pd.DataFrame(100*(1+np.random.normal(0, 0.01, 30)).cumprod(), dates)
TradingEnvXY(X,y,transformer=None,window=2)
pr=cProfile.Profile(); pr.enable()
for _ in range(3): TradingEnvXY(X,y,transformer=None,window=2)
pr.disable()
pstats.Stats(pr).sort_stats('cumulative').print_stats(18)

# throwaway: C16 reference metrics vs implementation on all small series
import os, sys
sys.path.insert(0, os.environ.get('VERIF_REPO','/repo'))
import itertools, math, warnings
warnings.simplefilter('ignore')
import numpy as np, pandas as pd
import tradingenv.metrics
def std1(x):
    n=len(x)
    if n<2: return float('nan')
    m=sum(x)/n; return math.sqrt(sum((v-m)**2 for v in x)/(n-1))
def quantile(x,q):
    x=sorted(x); n=len(x)
    if n==0: return float('nan')
    h=(n-1)*q; lo=math.floor(h); hi=math.ceil(h); return x[lo]+(x[hi]-x[lo])*(h-lo)
def mean(x): return sum(x)/len(x) if x else float('nan')
def ref(vals,stamps):
    # collapse to daily levels: last stamp per date
    days={}
    for v,t in zip(vals,stamps): days[t.date()]=v
    lv=[days[d] for d in sorted(days)]
    rets=[b/a-1 for a,b in zip(lv,lv[1:])]
    years=(stamps[-1]-stamps[0]).days/365
    out={}
    out['cagr']=(lv[-1]/lv[0])**(1/years)-1 if years>0 else float('nan')
    out['volatility']=math.sqrt(252)*std1(rets)
    peak=-1; dd=[]
    for v in lv: peak=max(peak,v); dd.append(v/peak-1)
    out['max_drawdown']=min(dd)
    out['value_at_risk']=quantile(rets,0.025)
    tail=[r for r in rets if r<=out['value_at_risk']]; out['expected_shortfall']=mean(tail)
    out['downside_volatility']=math.sqrt(252)*std1([r for r in rets if r<0])
    out['upside_volatility']=math.sqrt(252)*std1([r for r in rets if r>0])
    out['martin_risk']=math.sqrt(mean([d*d for d in dd]))
    def div(a,b):
        try: return a/b
        except ZeroDivisionError: return float('nan') if a==0 or math.isnan(a) else math.copysign(float('inf'),a)
    out['sharpe_ratio']=div(out['cagr'],out['volatility'])
    out['sortino_ratio']=div(out['cagr'],out['downside_volatility'])
    out['calmar_ratio']=div(out['cagr'],-out['max_drawdown'])
    out['martin_ratio']=div(out['cagr'],out['martin_risk'])
    return out,rets,dd
def eq(a,b):
    a=float(a); b=float(b)
    if math.isnan(a) and math.isnan(b): return True
    if math.isinf(a) or math.isinf(b): return a==b
    return abs(a-b)<=1e-9*max(1,abs(a),abs(b))
ALPHA=[1.,2.,4.,3.,1.5,.75]
base=pd.Timestamp('2020-01-06 10:00')
SHAPES={'daily':lambda n:[base+pd.Timedelta(days=i) for i in range(n)],
        'weekend':lambda n:[base+pd.Timedelta(days=d) for d in (0,1,4,7,8)[:n]],
        'intraday':lambda n:[base+pd.Timedelta(hours=h) for h in (0,3,24,27,48)[:n]],
        'month':lambda n:[base+pd.Timedelta(days=d) for d in (0,31,59,90,120)[:n]]}
n=bad=0; kinds={}
for L in (2,3,4):
    for vals in itertools.product(ALPHA,repeat=L):
        for sname,sf in SHAPES.items():
            st=sf(L); s=pd.Series(list(vals),index=pd.DatetimeIndex(st)); n+=1
            if (st[-1]-st[0]).days<1: continue
            r,rets,dd=ref(vals,st)
            for k,v in r.items():
                try: got=getattr(s,k)()
                except Exception as e: got=('EXC',repr(e)[:80])
                if isinstance(got,tuple) or not eq(got,v):
                    bad+=1; kinds[(k,sname)]=kinds.get((k,sname),0)+1
                    if kinds[(k,sname)]==1: print('MISMATCH',k,sname,vals,got,v)
            # scale invariance
            for c in (2.,.5,3.):
                for k in r:
                    try:
                        if not eq(getattr(s*c,k)(),getattr(s,k)()): bad+=1; kinds[('scale',k)]=kinds.get(('scale',k),0)+1
                    except Exception: pass
print('series',n,'bad',bad,kinds)
# corruptions
s=pd.Series([1.,2.,1.5,3.],index=pd.DatetimeIndex(SHAPES['daily'](4)))
cor={'nan':s.where(s!=2.),'zero':s.replace(2.,0.),'neg':s.replace(2.,-1.),'dup':pd.Series(s.values,index=s.index[[0,1,1,3]]),'unsorted':pd.Series(s.values,index=s.index[[0,2,1,3]]),'intidx':pd.Series(s.values),'stridx':pd.Series(s.values,index=list('abcd'))}
for name,c in cor.items():
    res=[]
    for k in ('simple_returns','log_returns','cagr','volatility','drawdown','max_drawdown','value_at_risk','expected_shortfall','downside_volatility','upside_volatility','sharpe_ratio','sortino_ratio','calmar_ratio','martin_ratio','martin_risk'):
        try: getattr(c,k)(); res.append(k)
        except Exception: pass
    try: s.tracking_error(c); res.append('tracking_error(other)')
    except Exception: pass
    try: c.tracking_error(s)
    except Exception: pass
    else: res.append('tracking_error(self)')
    print(name,'NOT rejected by:',res)

# throwaway: C13 fault enumeration prototype
import os, sys
sys.path.insert(0, os.environ.get('VERIF_REPO','/repo'))
import pickle, time, itertools, math
from datetime import datetime, timedelta
from collections import deque
import tradingenv; print('using', tradingenv.__file__)
from tradingenv.broker.broker import Broker
from tradingenv.broker.trade import Trade
from tradingenv.broker.fees import BrokerFees
from tradingenv.broker.rebalancing import Rebalancing
from tradingenv.exchange import Exchange
from tradingenv.events import EventNBBO, EventContractDiscontinued
from tradingenv.contracts import AbstractContract, Cash, Rate
class C(AbstractContract):
    def __init__(self, sym, mult, cash_req, margin_req):
        self._s=sym; self._m=mult; self._c=cash_req; self._mr=margin_req
    symbol=property(lambda s:s._s); multiplier=property(lambda s:s._m)
    cash_requirement=property(lambda s:s._c); margin_requirement=property(lambda s:s._mr)
X,Y,Z=C('S',1.,1.,0.),C('F',2.,0.,0.25),C('N',1.,1.,0.)   # Z never quoted
t0=datetime(2020,1,1); nan=float('nan')
QUOTES=[(100.,100.),(100.,104.)]
TRADES=[1.,-1.,2.,-2.]
OPS=[('q',c,q) for c in (X,Y) for q in QUOTES]+[('t',c,d) for c in (X,Y) for d in TRADES]
def states(depth):
    ex=Exchange()
    for c,p in ((Cash(),1.),(Rate('FED funds rate'),0.)): ex.process_EventNBBO(EventNBBO(t0,c,p,p))
    for c in (X,Y): ex.process_EventNBBO(EventNBBO(t0,c,100.,100.))
    b0=Broker(ex,deposit=65536.)
    canon=lambda b:(tuple(sorted((k.symbol,v+0.0) for k,v in b._holdings_quantity.items())),tuple(sorted((k.symbol,v) for k,v in b._last_marking_to_market_price.items())),tuple((c.symbol,b.exchange[c].bid_price,b.exchange[c].ask_price) for c in (X,Y)))
    seen={canon(b0):b0}; fr=deque([(b0,0)])
    while fr:
        b,d=fr.popleft()
        if d==depth: continue
        for op in OPS:
            nb=pickle.loads(pickle.dumps(b))
            if op[0]=='q': nb.exchange.process_EventNBBO(EventNBBO(t0,op[1],*op[2]))
            else:
                bk=nb.exchange[op[1]]; nb.transact(Trade(t0,op[1],op[2],bk.bid_price,bk.ask_price,nb.fees))
            k=canon(nb)
            if k not in seen: seen[k]=nb; fr.append((nb,d+1))
    return list(seen.values())
FAULTS=['bid','ask','both','disc']
TARGETS=[(.5,.5,0),(0,0,0),(-.5,0,0),(0,.25,0),(.25,.25,.25),(0,0,-.25)]
def inject(b,c,f):
    bk=b.exchange[c]
    if f=='bid': b.exchange.process_EventNBBO(EventNBBO(t0,c,nan,bk.ask_price))
    elif f=='ask': b.exchange.process_EventNBBO(EventNBBO(t0,c,bk.bid_price,nan))
    elif f=='both': b.exchange.process_EventNBBO(EventNBBO(t0,c,nan,nan))
    else: b.exchange.process_EventContractDiscontinued(EventContractDiscontinued(t0,c))
n=bad=0; cats={}; st=time.time(); shown=0
S=states(2); print('states',len(S))
for b in S:
    for subset in ((X,),(Y,),(X,Y)):
        for fs in itertools.product(FAULTS,repeat=len(subset)):
            fb=pickle.loads(pickle.dumps(b))
            for c,f in zip(subset,fs): inject(fb,c,f)
            pos={c:fb.holdings_quantity.get(c,0.) for c in (X,Y,Z)}
            def missing_liq(c):
                q=pos[c]; bk=fb.exchange[c]
                return q!=0 and math.isnan(bk.bid_price if q>0 else bk.ask_price)
            must_raise_val=any(missing_liq(c) for c in (X,Y))
            # valuation
            n+=1
            try: v=pickle.loads(pickle.dumps(fb)).net_liquidation_value(False); raised=False
            except ValueError: raised=True
            if raised!=must_raise_val or (not raised and math.isnan(v)):
                bad+=1; cats[('val',raised,must_raise_val)]=cats.get(('val',raised,must_raise_val),0)+1
            # rebalance
            for tg in TARGETS:
                n+=1
                rb_b=pickle.loads(pickle.dumps(fb))
                before=(dict(rb_b.holdings_quantity),len(rb_b.track_record))
                rb=Rebalancing([X,Y,Z],list(tg),time=t0+timedelta(seconds=5))
                try: rb_b.rebalance(rb); r=False
                except (ValueError,) as e: r=True; msg=str(e)
                after=(dict(rb_b.holdings_quantity),len(rb_b.track_record))
                if r:
                    pb={k:v for k,v in before[0].items() if not isinstance(k,Cash)}; pa={k:v for k,v in after[0].items() if not isinstance(k,Cash)}
                    if pb!=pa or before[1]!=after[1]:
                        bad+=1; cats[('atomicity',)]=cats.get(('atomicity',),0)+1
                        if shown<3: shown+=1; print('ATOMICITY',[(c.symbol,f) for c,f in zip(subset,fs)],tg,pb,pa,msg)
                else:
                    if must_raise_val: bad+=1; cats[('reb no raise but val must',)]=cats.get(('reb no raise but val must',),0)+1
                    # needed trade in contract lacking exec side?
                    for c,w in zip((X,Y,Z),tg):
                        for trd in rb.trades:
                            if math.isnan(trd.acq_price): bad+=1; cats[('nan exec',)]=cats.get(('nan exec',),0)+1
                    if w!=0 and c is Z: bad+=1; cats[('unquoted target executed',)]=cats.get(('unquoted target executed',),0)+1
                    v=rb_b.net_liquidation_value(False)
                    if math.isnan(v): bad+=1; cats[('nan nlv after',)]=cats.get(('nan nlv after',),0)+1
print('probes',n,'bad',bad,cats,round(time.time()-st,1),'s')

# throwaway: C02 prefix-equivalence-class prototype
import os, sys
sys.path.insert(0, os.environ.get('VERIF_REPO','/repo'))
import itertools, time, hashlib
from datetime import datetime, timedelta
import numpy as np
import tradingenv; print('using', tradingenv.__file__)
from tradingenv.env import TradingEnv
from tradingenv.transmitter import Transmitter
from tradingenv.events import EventNBBO
from tradingenv.contracts import ETF, AbstractContract
from tradingenv.spaces import BoxPortfolio
from tradingenv.library import FeaturePrices, FeaturePortfolioWeight
A,B=ETF('A'),ETF('B')
G=[datetime(2020,1,6,10)+timedelta(minutes=i) for i in range(5)]
PR={A:(64.,80.),B:(128.,96.)}
ACT=[np.array([.5,.25]),np.array([0.,1.]),np.array([.75,0.]),np.array([.25,.25])]
def run(vals,extra,L,d):
    AbstractContract.now=datetime.min
    ev=[]
    for i,g in enumerate(G):
        ev+=[EventNBBO(g,A,PR[A][vals[2*i]],PR[A][vals[2*i]]+2),EventNBBO(g,B,PR[B][vals[2*i+1]],PR[B][vals[2*i+1]]+2)]
    for (i,off,v) in extra: ev.append(EventNBBO(G[i]+timedelta(seconds=off),A,200.+8*v,202.+8*v))
    tr=Transmitter(G); tr.add_events(ev)
    env=TradingEnv(BoxPortfolio([A,B]),transmitter=tr,latency=L,steps_delay=d,initial_cash=4096,state=[FeaturePrices([A,B],name='p'),FeaturePortfolioWeight([A,B],0,1,name='w')])
    out=[]; o=env.reset(); out.append(('reset',repr({k:v.tolist() for k,v in o.items()})))
    cuts=[tuple(out)]
    for k in range(4):
        o,r,dn,info=env.step(ACT[k])
        rb=info['_rebalancing']
        out.append(('step',repr({k_:v.tolist() for k_,v in o.items()}),float(r).hex(),tuple((t.contract.symbol,float(t.quantity).hex(),t.acq_price) for t in rb.trades),float(rb.context_pre.nlv).hex(),float(rb.context_post.nlv).hex(),str(rb.time),tuple(sorted((c.symbol,float(q).hex()) for c,q in env.broker.holdings_quantity.items()))))
        cuts.append(tuple(out))
    return ev,cuts
classes={}; n=0; st=time.time()
extras=[()]+[((i,off,v),) for i in range(4) for off in (1,30,31) for v in (0,1)]
for L,d in ((0,0),(30,0),(30,1)):
    for extra in extras:
        for vals in itertools.product((0,1),repeat=10):
            ev,cuts=run(vals,extra,L,d); n+=1
            for k,g in enumerate(G):
                key=(L,d,k,tuple(sorted((e.time,e.contract.symbol,e.bid_price) for e in ev if e.time<=g)))
                classes.setdefault(key,set()).add(hashlib.sha1(repr(cuts[k]).encode()).hexdigest())
bad=[k for k,v in classes.items() if len(v)>1]
print('streams',n,'classes',len(classes),'classes with >1 outcome',len(bad),round(time.time()-st,1),'s')
for k in bad[:3]: print(k[:3])

# throwaway: size the broker BFS (states/transitions/time) on the unchanged tree
import copy, time, sys, pickle
from datetime import datetime
from collections import deque
from fractions import Fraction as Fr
from tradingenv.broker.broker import Broker
from tradingenv.broker.trade import Trade
from tradingenv.broker.fees import BrokerFees
from tradingenv.exchange import Exchange
from tradingenv.events import EventNBBO
from tradingenv.contracts import AbstractContract, Cash, Rate
class C(AbstractContract):
    def __init__(self, sym, mult, cash_req, margin_req):
        self._s=sym; self._m=mult; self._c=cash_req; self._mr=margin_req
    symbol=property(lambda s:s._s); multiplier=property(lambda s:s._m)
    cash_requirement=property(lambda s:s._c); margin_requirement=property(lambda s:s._mr)
S=C('S',1.,1.,0.); F=C('F',2.,0.,0.25)
t0=datetime(2020,1,1)
QUOTES=[(100.,100.),(100.,104.),(92.,96.),(112.,112.)]
TRADES=[1.,-1.,2.,-2.]
OPS=[('q',c,q) for c in (S,F) for q in QUOTES]+[('t',c,d) for c in (S,F) for d in TRADES]+[('m',),('v',)]
def init():
    ex=Exchange()
    for c,p in ((Cash(),1.),(Rate('FED funds rate'),0.)): ex.process_EventNBBO(EventNBBO(t0,c,p,p))
    for c in (S,F): ex.process_EventNBBO(EventNBBO(t0,c,100.,100.))
    return Broker(ex,deposit=4096.,fees=BrokerFees(proportional=1/64,fixed=1.))
def canon(b):
    return (tuple(sorted((k.symbol,v+0.0) for k,v in b._holdings_quantity.items())),
            tuple(sorted((k.symbol,v+0.0) for k,v in b._holdings_margins.items() if v!=0)),
            tuple(sorted((k.symbol,v) for k,v in b._last_marking_to_market_price.items())),
            tuple((c.symbol,b.exchange[c].bid_price,b.exchange[c].ask_price) for c in (S,F)))
def apply(b,op):
    if op[0]=='q': b.exchange.process_EventNBBO(EventNBBO(t0,op[1],*op[2]))
    elif op[0]=='t':
        bk=b.exchange[op[1]]; b.transact(Trade(t0,op[1],op[2],bk.bid_price,bk.ask_price,b.fees))
    elif op[0]=='m': b.marking_to_market()
    else: b.net_liquidation_value(False)
depth=int(sys.argv[1])
b0=init(); seen={canon(b0)}; frontier=deque([(b0,0)]); trans=0; st=time.time(); perdepth={}
while frontier:
    b,d=frontier.popleft()
    if d==depth: continue
    for op in OPS:
        nb=pickle.loads(pickle.dumps(b)); apply(nb,op); trans+=1
        k=canon(nb)
        if k not in seen:
            seen.add(k); frontier.append((nb,d+1)); perdepth[d+1]=perdepth.get(d+1,0)+1
print('depth',depth,'states',len(seen),'transitions',trans,'time',round(time.time()-st,1),'s', perdepth)

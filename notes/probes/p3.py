from datetime import datetime, timedelta
import numpy as np, pandas as pd, traceback
from tradingenv.env import TradingEnv
from tradingenv.transmitter import Transmitter
from tradingenv.events import EventNBBO, IEvent
from tradingenv.contracts import Cash, ETF, ES, VX, ZN, NK, ZQ, ZT, ZF, ZB, FutureChain, AbstractContract
from tradingenv.spaces import BoxPortfolio
from tradingenv.broker.broker import EndOfEpisodeError

print("=== C09 ruin during nonlatent events")
T=[datetime(2020,1,d) for d in (1,2,3,6)]
px=[10,4,4,4]
ev=[]
for t,p in zip(T,px):
    ev+= [EventNBBO(t,ETF('A'),p,p), EventNBBO(t,ETF('B'),1,1)]
tr=Transmitter(T); tr.add_events(ev)
env=TradingEnv(action_space=BoxPortfolio([ETF('A'),ETF('B')],low=-3,high=3),transmitter=tr)
env.reset()
try:
    print(env.step(np.array([2.,0.]))[1:])
    print(env.step(np.array([2.,0.]))[1:])
except Exception as e:
    print('EXC',type(e).__name__,e, 'done flag', env._done, 'nlv', env.broker.net_liquidation_value(False))
    try:
        print(env.step(np.array([0.,0.]))[1:3], 'len tr', len(env.broker.track_record))
    except Exception as e2: print('EXC2', type(e2).__name__, e2)
    try:
        print(env.step(np.array([0.,0.]))[1:3], 'len tr', len(env.broker.track_record))
    except Exception as e2: print('EXC2', type(e2).__name__, e2)

print("=== C09 ruin on first step before decision (short then gap) : first-step insolvency -> track_record empty")
px=[10,30,30,30]
ev=[]
for t,p in zip(T,px):
    ev+= [EventNBBO(t,ETF('A'),p,p), EventNBBO(t,ETF('B'),1,1)]
tr=Transmitter(T); tr.add_events(ev)
env=TradingEnv(action_space=BoxPortfolio([ETF('A'),ETF('B')],low=-3,high=3),transmitter=tr, initial_cash=0)
env.reset()
try: print(env.step(np.array([1.,0.]))[1:])
except Exception as e: print('EXC',type(e).__name__,e)

print("=== C12 whole-lot second rebalance")
T=[datetime(2020,1,d) for d in (1,2,3,6)]
ev=[]
for t,p in zip(T,[10,10.1,10.2,10.3]):
    ev+= [EventNBBO(t,ETF('A'),p,p), EventNBBO(t,ETF('B'),1,1)]
tr=Transmitter(T); tr.add_events(ev)
env=TradingEnv(action_space=BoxPortfolio([ETF('A'),ETF('B')],fractional=False),transmitter=tr, initial_cash=1000)
env.reset()
try:
    print(env.step(np.array([.5,.0]))[1:3], env.broker.holdings_quantity)
    print(env.step(np.array([.5,.0]))[1:3], env.broker.holdings_quantity)
except Exception as e: print('EXC',type(e).__name__,e)

print("=== C19/C11 VX chain")
for cls in (ES,NK,ZN,ZQ,ZT,ZF,ZB,VX):
    try:
        ch=FutureChain(cls,'2018-01','2019-12'); print(cls.__name__, len(ch.contracts), ch.contracts[:3])
    except Exception as e: print(cls.__name__,'EXC',type(e).__name__,e)

from datetime import datetime, timedelta
import numpy as np, pandas as pd
from tradingenv.env import TradingEnv
from tradingenv.transmitter import Transmitter
from tradingenv.events import EventNBBO, IEvent
from tradingenv.contracts import Cash, ETF, ES, VX, ZN, NK, FutureChain, AbstractContract
from tradingenv.state import IState
from tradingenv.spaces import BoxPortfolio

class Rec(IState):
    def __init__(self): self.log=[]
    def process_EventNBBO(self,event): self.log.append(('NBBO',event.time,event.contract.symbol if hasattr(event.contract,'symbol') else event.contract))
    def process_EventNewDate(self,event): self.log.append(('NewDate',event.time))
    def process_EventReset(self,event): self.log.append(('Reset',event.time))
    def process_EventStep(self,event): self.log.append(('Step',event.time))
    def process_EventDone(self,event): self.log.append(('Done',event.time))

print("=== C04: single contract daily: env clock after new date")
T=[datetime(2020,1,d) for d in (1,2,3,6)]
tr=Transmitter(T); tr.add_events([EventNBBO(t,ETF('A'),10+i,10+i) for i,t in enumerate(T)])
rec=Rec()
env=TradingEnv(action_space=BoxPortfolio([ETF('A')]),transmitter=tr,state=rec)
env.reset(); print('after reset now=',env.now())
done=False
while not done:
    _,r,done,info=env.step(np.array([0.5])); print('now',env.now(),'tr time',env.broker.track_record[-1].time, 'AbstractContract.now',AbstractContract.now)
for l in rec.log: print(l)

print("=== C04: history replay with latency into later fold")
T=[datetime(2020,1,1,10,0,0)+timedelta(minutes=i) for i in range(4)]
ev=[]
for i,t in enumerate(T):
    ev.append(EventNBBO(t,ETF('A'),10+i,10+i))
    ev.append(EventNBBO(t+timedelta(seconds=5),ETF('A'),10+i+.1,10+i+.1))  # latent for next
    ev.append(EventNBBO(t+timedelta(seconds=40),ETF('A'),10+i+.4,10+i+.4))  # nonlatent for next
tr=Transmitter(T,folds={'training-set':[T[0],T[1]],'test':[T[2],T[3]]}); tr.add_events(ev)
rec=Rec()
env=TradingEnv(action_space=BoxPortfolio([ETF('A')]),transmitter=tr,state=rec,latency=10)
env.reset('test')
for l in rec.log: print(l)
print('book',env.exchange[ETF('A')], env.exchange[ETF('A')].history['time'])

# C01 probes: add-to-margined-position under spread; spot-like multiplier != 1
from datetime import datetime
from tradingenv.broker.broker import Broker
from tradingenv.broker.trade import Trade
from tradingenv.broker.fees import BrokerFees
from tradingenv.exchange import Exchange
from tradingenv.events import EventNBBO
from tradingenv.contracts import AbstractContract, Cash, ETF, ES, Rate

class C(AbstractContract):
    def __init__(self, sym, mult, cash_req, margin_req):
        self._s=sym; self._m=mult; self._c=cash_req; self._mr=margin_req
    symbol=property(lambda s:s._s); multiplier=property(lambda s:s._m)
    cash_requirement=property(lambda s:s._c); margin_requirement=property(lambda s:s._mr)

def run(contract, ops, deposit=1000.):
    ex=Exchange(); t=datetime(2020,1,1)
    ex.process_EventNBBO(EventNBBO(t,Cash(),1,1)); ex.process_EventNBBO(EventNBBO(t,Rate('FED funds rate'),0,0))
    b=Broker(ex, deposit=deposit)
    ledger=0.0 ; pos=0.0
    for op in ops:
        if op[0]=='q':
            ex.process_EventNBBO(EventNBBO(t,contract,op[1],op[2]))
        else:
            book=ex[contract]
            tr=Trade(t,contract,op[1],book.bid_price,book.ask_price,b.fees)
            b.transact(tr)
            pos+=op[1]; ledger+=op[1]*tr.acq_price
        nlv=b.net_liquidation_value(False)
        book=ex[contract]
        liq = book.bid_price if pos>=0 else book.ask_price
        exp=deposit+contract.multiplier*(pos*liq-ledger)
        print(op, 'nlv',nlv,'expected',exp, 'diff', nlv-exp, 'margins',b.holdings_margins, 'cash', b.holdings_quantity[Cash()])
print('--- future add under spread')
run(C('F',10.,0.,0.1), [('q',99,101),('t',1),('t',1),('q',109,111),('t',-3)])
print('--- spot')
run(C('S',1.,1.,0.), [('q',99,101),('t',1),('t',1),('q',109,111),('t',-3)])
print('--- spot multiplier 10')
run(C('S10',10.,1.,0.), [('q',99,101),('t',1),('t',1),('q',109,111),('t',-3)])

# throwaway: C15 chooser + walk-forward, C17 malformed actions, C06 split invariance
import os, sys
sys.path.insert(0, os.environ.get('VERIF_REPO','/repo'))
import itertools, math, unittest.mock as um
from datetime import datetime, timedelta
from fractions import Fraction as Fr
import numpy as np
import tradingenv
from tradingenv.env import TradingEnv
from tradingenv.transmitter import Transmitter
from tradingenv.events import EventNBBO
from tradingenv.contracts import ETF, Cash, Rate, AbstractContract
from tradingenv.spaces import BoxPortfolio, DiscretePortfolio
from tradingenv.broker.broker import Broker
from tradingenv.exchange import Exchange
A,B=ETF('A'),ETF('B')
print('=== C15 episode length via chooser')
bad=0;n=0
for N in range(3,8):
    G=[datetime(2020,1,6,10)+timedelta(minutes=i) for i in range(N)]
    for empty in [()]+[(i,) for i in range(1,N-1)]:
        ev=[EventNBBO(g,c,10+i,10+i) for i,g in enumerate(G) if i not in empty for c in (A,B)]
        bearing=[g for i,g in enumerate(G) if i not in empty]
        for (fs,fe) in itertools.combinations(range(N),2):
            fold=(G[fs],G[fe]); insteps=[g for g in bearing if fold[0]<=g<=fold[1]]
            for nlen in range(1,len(insteps)+2):
                valid=[i for i in range(len(insteps)) if i+nlen<=len(insteps)-1]
                seen_cands=[]
                def run(choice):
                    AbstractContract.now=datetime.min
                    tr=Transmitter(G,folds={'training-set':list(fold)}); tr.add_events(list(ev))
                    env=TradingEnv(BoxPortfolio([A,B]),transmitter=tr,episode_length=nlen)
                    def chooser(a,p=None,**kw):
                        seen_cands.append((list(a),None if p is None else list(p))); return list(a)[choice]
                    with um.patch('numpy.random.choice',chooser):
                        env.reset()
                    steps=[env.now()]; k=0; d=env._done
                    while not d:
                        o,r,d,i=env.step(np.array([.1,.1])); k+=1; steps.append(env.now())
                    return steps,k
                n+=1
                if not valid:
                    try: run(0); bad+=1; print('NOT REFUSED',N,empty,fs,fe,nlen)
                    except ValueError: pass
                    except Exception as e: print('refused with',type(e).__name__)
                    continue
                for ci,start in enumerate(valid):
                    try: steps,k=run(ci)
                    except Exception as e: bad+=1; print('EXC',N,empty,fs,fe,nlen,ci,repr(e)); break
                    cand=seen_cands[-1][0]
                    if cand!=list(range(len(valid))) or k!=nlen or steps!=insteps[start:start+nlen+1]:
                        bad+=1; print('BAD',N,empty,fs,fe,nlen,ci,cand,k,steps[:2])
print('C15 cases',n,'bad',bad)
print('=== walk forward')
bad=n=0
for N in range(2,15):
    tr=Transmitter([datetime(2020,1,1)+timedelta(days=i) for i in range(N)])
    for train in range(1,N):
        for test in range(1,N-train+1):
            for sl in (True,False):
                f=tr.walk_forward(train,test,sl); n+=1
                ts,te,vs,ve=map(list,(f.train_start,f.train_end,f.test_start,f.test_end))
                ok=len(ts)>=1 and all(v==e+1 for v,e in zip(vs,te)) and all(e2-v+1==test for v,e2 in zip(vs,ve)) and all(ve[i]<vs[i+1] for i in range(len(vs)-1)) and all(0<=x<N for x in ts+te+vs+ve) and all((te[i]-ts[i]+1==train) if sl else ts[i]==0 for i in range(len(ts)))
                if not ok: bad+=1; print('WF BAD',N,train,test,sl,ts,te,vs,ve)
print('walk-forward cases',n,'bad',bad)
print('=== C17 malformed actions')
G=[datetime(2020,1,6,10)+timedelta(minutes=i) for i in range(5)]
ev=[EventNBBO(g,c,64+4*i,66+4*i) for i,g in enumerate(G) for c in (A,B)]
MAL_BOX=[np.array([.5]),np.array([[.5,.5]]),np.array([1.0000000000000002,0]),np.array([2.,0]),np.array([-.1,0]),np.array([float('nan'),0]),np.array([float('inf'),0]),None,'x',[.5,.5,.5]]
MAL_DISC=[-1,3,1.5,10**9,None,'x',np.array([1,0]),float('nan')]
bad=n=0
for kind in ('box','disc'):
    for d in (0,1,2):
        for pos in range(4):
            for m in (MAL_BOX if kind=='box' else MAL_DISC):
                AbstractContract.now=datetime.min
                tr=Transmitter(G); tr.add_events(list(ev))
                sp=BoxPortfolio([Cash(),A,B][(0 if pos%2 else 1):]) if kind=='box' else DiscretePortfolio([A,B],[[0,0],[.5,.25],[0,1.]])
                good=(np.array([0,.5,.25][(0 if pos%2 else 1):]) if kind=='box' else 1)
                env=TradingEnv(sp,transmitter=tr,steps_delay=d,initial_cash=4096); env.reset(); n+=1
                raised_at=None
                for k in range(4):
                    a = m if k==pos else good
                    snap=(dict(env.broker.holdings_quantity),dict(env.broker.holdings_margins),len(env.broker.track_record))
                    try: env.step(a)
                    except Exception as e:
                        if isinstance(e, tradingenv.broker.broker.EndOfEpisodeError): break
                        raised_at=k
                        if snap!=(dict(env.broker.holdings_quantity),dict(env.broker.holdings_margins),len(env.broker.track_record)): bad+=1; print('STATE CHANGED',kind,d,pos,repr(m))
                        break
                due=pos+d
                if due<4 and (raised_at is None or raised_at>due): bad+=1; print('NOT REJECTED',kind,d,pos,repr(m),raised_at)
print('C17 cases',n,'bad',bad)
print('=== C06 split invariance')
import decimal
def mk(cash,r,m):
    ex=Exchange(); t0=datetime(2020,1,1)
    rate=Rate('FED funds rate')
    ex.process_EventNBBO(EventNBBO(t0,Cash(),1,1)); ex.process_EventNBBO(EventNBBO(t0,rate,r,r))
    from tradingenv.broker.fees import BrokerFees
    b=Broker(ex,deposit=cash,fees=BrokerFees(markup=m)); b.accrued_interest(t0,True); return b,t0
worst=0;n=0;bad=0
for cash in (4096.,-1024.,0.):
  for r in (0,.02,.05,-.01,.2):
    for m in (0,.005,.03):
      for unit in (timedelta(seconds=1),timedelta(days=1),timedelta(days=73),timedelta(days=1826)):
        for nunits in (1,3,8):
            total=unit*nunits
            b,t0=mk(cash,r,m); b.accrued_interest(t0+total,True); single=b.holdings_quantity[Cash()]
            g = (1+r-m) if cash>0 else (1+r+m)
            years=Fr(int(total.total_seconds()),365*24*3600)
            exp = cash*max(1.0, g**float(years)) if cash>0 else cash*g**float(years)
            if abs(single-exp)>1e-9*max(1,abs(exp)): bad+=1; print('closed form',cash,r,m,unit,nunits,single,exp)
            for cuts in itertools.product((0,1),repeat=nunits-1):
                b,t0=mk(cash,r,m); t=t0
                for i,c in enumerate(cuts):
                    t=t0+unit*(i+1)
                    q=b.accrued_interest(t,False)   # query only
                    if c: b.accrued_interest(t,True); 
                    if c and b.accrued_interest(t,True)!=0: bad+=1; print('double accrual')
                b.accrued_interest(t0+total,True); v=b.holdings_quantity[Cash()]; n+=1
                rel=abs(v-single)/max(1,abs(single)); worst=max(worst,rel)
                if rel>1e-9: bad+=1; print('split',cash,r,m,unit,nunits,cuts,v,single)
print('C06 cases',n,'bad',bad,'worst rel err',worst)

# throwaway: C04 delivery oracle prototype
import os, sys
sys.path.insert(0, os.environ.get('VERIF_REPO','/repo'))
import itertools, time, bisect
from datetime import datetime, timedelta
import numpy as np
import tradingenv; print('using', tradingenv.__file__)
from tradingenv.env import TradingEnv
from tradingenv.transmitter import Transmitter
from tradingenv.events import EventNBBO, IEvent
from tradingenv.contracts import ETF, AbstractContract
from tradingenv.state import IState
from tradingenv.spaces import BoxPortfolio
class Custom(IEvent):
    def __init__(self,time,tag): self.time=time; self.tag=tag
class Rec(IState):
    def __init__(self): self.log=[]
    def process_EventNBBO(self,event): self.log.append(('E',id(event),event.time))
    def process_Custom(self,event): self.log.append(('E',id(event),event.time))
    def process_EventNewDate(self,event): self.log.append(('NewDate',None,event.time))
    def process_EventReset(self,event): self.log.append(('Reset',None,event.time))
    def process_EventStep(self,event): self.log.append(('Step',None,event.time))
    def process_EventDone(self,event): self.log.append(('Done',None,event.time))
A=ETF('A'); Bc=ETF('B')
def expected(G,events,L,fold,markov,warm):
    G=sorted(set(G)); out=[]
    slot={}; lat={}
    for e in events:
        if e.time>G[-1]: continue
        if markov and e.time<G[0]: continue
        i=bisect.bisect_left(G,e.time); slot[id(e)]=G[i]
        lat[id(e)]= (i>0 and (e.time-G[i-1]).total_seconds()<=L)
    steps=sorted({s for s in slot.values() if fold[0]<=s<=fold[1]})
    order=sorted([e for e in events if id(e) in slot], key=lambda e:e.time)  # stable
    return steps,slot,lat,order
def run(G,events,L,fold,markov,warm,ncontracts):
    AbstractContract.now=datetime.min
    tr=Transmitter(list(G),folds={'training-set':list(fold)},markov_reset=markov,warmup=warm); tr.add_events(list(events))
    rec=Rec()
    env=TradingEnv(BoxPortfolio([A,Bc][:ncontracts],-1,1),transmitter=tr,state=rec,latency=L)
    logs=[]
    for ep in range(2):
        try: env.reset()
        except Exception as ex: return ('EXC-reset',repr(ex))
        marks=[len(rec.log)]; nows=[env.now()]
        d=env._done; k=0
        while not d:
            o,r,d,i=env.step(np.zeros(ncontracts)); marks.append(len(rec.log)); nows.append(env.now()); k+=1
        logs.append((list(rec.log),marks,nows,[rb.time for rb in [env.broker.track_record[j] for j in range(len(env.broker.track_record))]]))
    return logs
def check(G,events,L,fold,markov,warm,ncontracts):
    steps,slot,lat,order=expected(G,events,L,fold,markov,warm)
    res=run(G,events,L,fold,markov,warm,ncontracts)
    if not steps: return None if isinstance(res,tuple) else 'expected refusal'
    if isinstance(res,tuple): return res
    for (log,marks,nows,rtimes) in res:
        ev=[x for x in log if x[0]=='E']
        ids=[x[1] for x in ev]
        # expected delivered set
        exp=[]
        origin = (steps[0]-warm) if warm else datetime.min
        for e in order:
            s=slot[id(e)]
            if s<=steps[0]:
                if markov:
                    if s==steps[0]: exp.append(e)
                elif s>=origin: exp.append(e)
            elif s<=steps[-1] and s in steps: exp.append(e)
        # order: history in time order; then per step latent..nonlatent (time order anyway)
        exp_sorted=sorted(exp,key=lambda e:(max(slot[id(e)],steps[0]), e.time)) if not markov else sorted(exp,key=lambda e:(slot[id(e)],e.time))
        if [id(e) for e in exp_sorted]!=ids: return ('delivery mismatch',[(e.time) for e in exp_sorted],[x[2] for x in ev])
        # nondecreasing time of entire log
        ts=[x[2] for x in log]
        if any(a>b for a,b in zip(ts,ts[1:])): return ('non-monotone',[ (x[0],x[2]) for x in log])
        # env notifications carry time of latest market event
        last=None
        for x in log:
            if x[0]=='E': last=x[2]
            elif x[0] in('Reset','Step','Done'):
                if x[2]!=last: return ('stamp',x,last)
        # now() after each call = latest market event delivered so far
        for m,nw in zip(marks,nows):
            lastE=[x[2] for x in log[:m] if x[0]=='E']
            if lastE and nw!=lastE[-1]: return ('now',nw,lastE[-1])
        # latent iff before execution: rebal time for step k = time of last event delivered before execution
        # (check: events delivered between marks[k-1] and the Step marker, those latent come first)
    return None
base=datetime(2020,1,3,10,0,0)  # Friday
GAPS={'min':[timedelta(minutes=i) for i in range(4)], 'day':[timedelta(days=i) for i in (0,3,4,5)]}
n=0;bad=0;st=time.time(); outcomes=set()
for gname,offs in GAPS.items():
    G=[base+o for o in offs]
    for L in (0,30):
        pos=[G[0]-timedelta(seconds=5)]
        for g in G: pos+=[g-timedelta(seconds=1),g,g+timedelta(seconds=1),g+timedelta(seconds=L) if L else g+timedelta(seconds=2),g+timedelta(seconds=L+1),g+timedelta(seconds=45)]
        pos.append(G[-1]+timedelta(hours=1))
        pos=sorted(set(pos))
        for ncon in (1,2):
            bars=[EventNBBO(g,c,10+i,10+i) for i,g in enumerate(G) for c in [A,Bc][:ncon]]
            for extra in itertools.chain([()],itertools.combinations_with_replacement(pos,1),itertools.combinations_with_replacement(pos,2)):
                evs=bars+[Custom(p,j) if j%2 else EventNBBO(p,A,20+j,20+j) for j,p in enumerate(extra)]
                for fold in ((G[0],G[-1]),(G[2],G[-1]),(G[1],G[2])):
                    for markov,warm in ((False,None),(True,None),(False,G[1]-G[0])):
                        n+=1
                        r=check(G,evs,L,fold,markov,warm,ncon)
                        if r is not None:
                            bad+=1
                            key=(r[0],gname,L,ncon,markov,warm is not None,fold[0]!=G[0])
                            if key not in outcomes:
                                outcomes.add(key); print('BAD',key,[p-base for p in extra]); print('    ',r[1:] if len(str(r))<700 else str(r)[:700])
print('executions',n,'bad',bad,'time',round(time.time()-st,1))

# throwaway: C03 prototype from reachable states
import os, sys
sys.path.insert(0, os.environ.get('VERIF_REPO','/repo'))
import pickle, time
from datetime import datetime, timedelta
from collections import deque
from fractions import Fraction as Fr
import tradingenv; print('using', tradingenv.__file__)
from tradingenv.broker.broker import Broker
from tradingenv.broker.trade import Trade
from tradingenv.broker.fees import BrokerFees
from tradingenv.broker.rebalancing import Rebalancing
from tradingenv.exchange import Exchange
from tradingenv.events import EventNBBO
from tradingenv.contracts import AbstractContract, Cash, Rate
class C(AbstractContract):
    def __init__(self, sym, mult, cash_req, margin_req):
        self._s=sym; self._m=mult; self._c=cash_req; self._mr=margin_req
    symbol=property(lambda s:s._s); multiplier=property(lambda s:s._m)
    cash_requirement=property(lambda s:s._c); margin_requirement=property(lambda s:s._mr)
X,Y=C('S4',4.,1.,0.),C('F',2.,0.,0.25)
t0=datetime(2020,1,1)
QUOTES=[(100.,100.),(100.,104.),(92.,96.),(112.,112.)]
TRADES=[1.,-1.,2.,-2.]
OPS=[('q',c,q) for c in (X,Y) for q in QUOTES]+[('t',c,d) for c in (X,Y) for d in TRADES]
def states(fees,depth):
    ex=Exchange()
    for c,p in ((Cash(),1.),(Rate('FED funds rate'),0.)): ex.process_EventNBBO(EventNBBO(t0,c,p,p))
    for c in (X,Y): ex.process_EventNBBO(EventNBBO(t0,c,100.,100.))
    b0=Broker(ex,deposit=65536.,fees=BrokerFees(proportional=fees[1],fixed=fees[0]))
    canon=lambda b:(tuple(sorted((k.symbol,v+0.0) for k,v in b._holdings_quantity.items())),tuple(sorted((k.symbol,v) for k,v in b._last_marking_to_market_price.items())),tuple((c.symbol,b.exchange[c].bid_price,b.exchange[c].ask_price) for c in (X,Y)))
    seen={canon(b0):b0}; fr=deque([(b0,0)])
    while fr:
        b,d=fr.popleft()
        if d==depth: continue
        for op in OPS:
            nb=pickle.loads(pickle.dumps(b))
            if op[0]=='q': nb.exchange.process_EventNBBO(EventNBBO(t0,op[1],*op[2]))
            else:
                bk=nb.exchange[op[1]]; nb.transact(Trade(t0,op[1],op[2],bk.bid_price,bk.ask_price,nb.fees))
            k=canon(nb)
            if k not in seen: seen[k]=nb; fr.append((nb,d+1))
    return list(seen.values())
TARGETS=[('weight',(.5,.5)),('weight',(1,0)),('weight',(0,0)),('weight',(-.5,.75)),('weight',(1.5,-.5)),('weight',(0,-1)),('nr-contracts',(2,-1)),('nr-contracts',(0,3))]
tol=1e-9
n=bad=0; st=time.time(); shown=0
for fees in ((0.,0.),(1.,1/64)):
    for b in states(fees,3):
        for meas,tg in TARGETS:
            nb=pickle.loads(pickle.dumps(b)); n+=1
            nlv_pre=nb.net_liquidation_value(False)
            if nlv_pre<=0: continue
            held=dict(nb.holdings_quantity)
            rb=Rebalancing([X,Y],list(tg),measure=meas,time=t0+timedelta(seconds=1)); nb.rebalance(rb)
            ok=True; why=''
            for c,w in zip((X,Y),tg):
                q=nb.holdings_quantity.get(c,0.); bk=nb.exchange[c]
                if meas=='weight':
                    if w==0: ok&= (q==0)
                    else:
                        px=bk.ask_price if w>0 else bk.bid_price
                        if abs(q*c.multiplier*px - w*nlv_pre) > tol*max(1,abs(w*nlv_pre)): ok=False; why=('target',c.symbol,q*c.multiplier*px,w*nlv_pre)
                else:
                    if abs(q-w)>1e-12: ok=False; why=('nr',c.symbol,q,w)
            frictionless = fees==(0.,0.) and all(nb.exchange[c].bid_price==nb.exchange[c].ask_price for c in (X,Y))
            if ok and frictionless and meas=='weight':
                nlv_post=nb.net_liquidation_value(False)
                if abs(nlv_post-nlv_pre)>tol*nlv_pre: ok=False; why=('nlv changed',nlv_pre,nlv_post)
                wts=nb.holdings_weights()
                for c,w in zip((X,Y),tg):
                    if abs(wts.get(c,0.)-w)>1e-9: ok=False; why=('weights',c.symbol,wts.get(c,0.),w)
                rb2=Rebalancing([X,Y],list(tg),measure=meas,time=t0+timedelta(seconds=2)); nb.rebalance(rb2)
                tot=sum(abs(t.notional) for t in rb2.trades)
                if tot>1e-9*nlv_pre: ok=False; why=('second trades',tot)
            if not ok:
                bad+=1
                if shown<5: shown+=1; print('BAD',fees,meas,tg,{k.symbol:v for k,v in held.items()},why)
print('rebalances',n,'bad',bad,round(time.time()-st,1),'s')

import calendar, time
from datetime import datetime, timedelta, date
import pandas as pd
from tradingenv.contracts import ES, NK, VX, ZQ, ZT, ZF, ZN, ZB, Future
def nth_weekday(y,m,wd,n):
    c=calendar.Calendar().itermonthdates(y,m)
    ds=[d for d in c if d.month==m and d.weekday()==wd]
    return ds[n-1]
def last_weekday(y,m):
    d=date(y,m,calendar.monthrange(y,m)[1])
    while d.weekday()>=5: d-=timedelta(days=1)
    return d
bad=[]; t0=time.time(); n=0
for cls in (ES,NK,VX,ZQ,ZT,ZF,ZN,ZB):
    for y in range(1970,2100):
        for m in range(1,13):
            n+=1
            try: f=cls(y,m)
            except Exception as e: bad.append((cls.__name__,y,m,'EXC',repr(e))); continue
            if cls is ES: exp=nth_weekday(y,m,4,3)
            elif cls is NK: exp=nth_weekday(y,m,4,2)
            elif cls is VX:
                ny,nm=(y+1,1) if m==12 else (y,m+1)
                exp=nth_weekday(ny,nm,4,3)-timedelta(days=30)
            else: exp=last_weekday(y,m)
            e=f.expiry; e=e.date() if hasattr(e,'date') else e
            if e!=exp: bad.append((cls.__name__,y,m,'expiry',f.expiry,exp))
            if cls is VX and e.weekday()!=2: bad.append((cls.__name__,y,m,'notwed',e))
            if not (pd.Timestamp(f.last_trading_date)<pd.Timestamp(f.expiry)): bad.append((cls.__name__,y,m,'ltd>=exp',f.last_trading_date,f.expiry))
            sym=cls.__name__+Future.month_codes[m]+('%02d'%(y%100))
            if f.symbol!=sym: bad.append((cls.__name__,y,m,'symbol',f.symbol,sym))
print(n,'constructed in',time.time()-t0,'s; bad',len(bad)); print(bad[:20])
# ordering of consecutive contracts
for cls,months in ((ES,(3,6,9,12)),(NK,(3,6,9,12)),(ZN,(3,6,9,12)),(VX,range(1,13))):
    prev=None; k=0
    for y in range(1970,2100):
        for m in months:
            f=cls(y,m)
            if prev is not None and not (pd.Timestamp(prev.last_trading_date)<pd.Timestamp(f.last_trading_date) and pd.Timestamp(prev.expiry)<pd.Timestamp(f.expiry)): k+=1; print('order',cls.__name__,prev.symbol,f.symbol)
            prev=f
    print(cls.__name__,'order violations',k)

from datetime import datetime, timedelta
from fractions import Fraction as Fr
import numpy as np, pandas as pd, itertools
from tradingenv.env import TradingEnv
from tradingenv.transmitter import Transmitter
from tradingenv.events import EventNBBO
from tradingenv.contracts import Cash, ETF, Rate
from tradingenv.spaces import BoxPortfolio
from tradingenv.broker.fees import BrokerFees
T=[datetime(2020,1,1)+timedelta(days=i) for i in range(6)]
A,B,R=ETF('A'),ETF('B'),Rate('FED funds rate')
pa=[100,104,96,100,112,100]; pb=[50,50,52,48,50,50]; rr=[0.02,0.02,0.05,0.0,0.02,0.02]
def run(actions, latency=0, delay=0, reward='RewardSimpleReturn', extra=False):
    ev=[]
    for i,t in enumerate(T):
        ev+=[EventNBBO(t,A,pa[i]-1,pa[i]+1),EventNBBO(t,B,pb[i]-.5,pb[i]+.5),EventNBBO(t,R,rr[i],rr[i])]
        if extra: ev+=[EventNBBO(t+timedelta(seconds=30),A,pa[i]+2,pa[i]+4)]
    tr=Transmitter(T); tr.add_events(ev)
    env=TradingEnv(BoxPortfolio([A,B],-2,2),transmitter=tr,broker_fees=BrokerFees(markup=0.01,proportional=1/256,fixed=0.5),latency=latency,steps_delay=delay,reward=reward,initial_cash=1000)
    env.reset(); rew=[]
    for a in actions:
        o,r,d,i=env.step(np.array(a)); rew.append(r)
        if d: break
    return env,rew
env,rew=run([[.5,.5],[1.5,-.5],[0,0],[-1,1],[.2,.2]],latency=60,extra=True)
tr=env.broker.track_record
cash=1000.0; pos={A:0.0,B:0.0}
hist={c:env.exchange[c].history for c in (A,B)}
def quote_at(c,t):
    h=hist[c]; idx=max(i for i,tt in enumerate(h['time']) if tt<=t); return h['bid_price'][idx],h['ask_price'][idx]
def nlv(t):
    v=cash
    for c,q in pos.items():
        b,a=quote_at(c,t); v+= q*(b if q>=0 else a)
    return v
for k in range(len(tr)):
    rb=tr[k]
    cash+=rb.profit_on_idle_cash
    pre=nlv(rb.time)
    for trd in rb.trades:
        cash-= trd.quantity*trd.acq_price + trd.cost_of_commissions; pos[trd.contract]+=trd.quantity
    post=nlv(rb.time)
    print(rb.time,'pre',rb.context_pre.nlv,pre,'post',rb.context_post.nlv,post,'int',rb.profit_on_idle_cash,[ (t.contract.symbol,round(t.quantity,3),t.acq_price) for t in rb.trades])
print('rewards',rew)
print('prod', np.prod([1+r for r in rew]), env.broker.net_liquidation_value()/1000)

#!/bin/bash
# usage: baseline.sh [repo_dir]  -> prints pytest summary line; runs the pinned suite offline
d=${1:-/repo}
cd "$d" && /venv/bin/python -m pytest -q -p no:cacheprovider --timeout=900 --continue-on-collection-errors -x --deselect tests/examples/test_readme.py 2>&1 | grep -E "passed|failed|error" | tail -3

#!/bin/bash
# usage: wave.sh <seed_id>...   (worktrees at /tmp/seed/<id>; property = first 3 chars)
# intake (fresh worktree, demo with/without, pinned suite) then run the property's check; prints one line per seed
cd "$(dirname "$0")/.."
for s in "$@"; do
  p=${s:0:3}
  /venv/bin/python tools/seed.py intake /tmp/seed/$s $s $p > /tmp/intake_$s.txt 2>&1
  c=$(grep -E '"confirmed"' /tmp/intake_$s.txt | tr -d ' ,')
  r=$(/venv/bin/python tools/seed.py run $s $p 2>&1 | grep -v KNOWN | cut -c1-230 | tr '\n' ' ')
  echo "$s $c :: $r"
  git -C /repo worktree remove --force /tmp/seed/$s 2>/dev/null
done
git -C /repo worktree prune

#!/venv/bin/python
"""Intake and evaluation of seeded property-breaking changes.

  seed.py intake <agent_worktree> <seed_id> <property> [--no-tests]
      copies seed_out/{patch.diff,demo.py,notes.md} to /verif/seeded/<seed_id>/, then in a FRESH
      scratch worktree of /repo HEAD confirms: patch applies; demo passes without and fails with
      the patch; the pinned test suite still passes with the patch.  Writes meta.json.
  seed.py run <seed_id> [checks...] [--tier quick|thorough]
      applies the patch in a scratch worktree and runs the given checks (default: the seed's
      property) with VERIF_REPO pointing at it; records detection in meta.json.
  seed.py runall [--tier quick]       every seed against its own property's check
"""
import json
import os
import re
import shutil
import subprocess
import sys
import tempfile

VERIF = os.path.dirname(os.path.dirname(os.path.abspath(__file__)))
SEEDED = os.path.join(VERIF, "seeded")


def sh(cmd, **kw):
    return subprocess.run(cmd, capture_output=True, text=True, **kw)


def worktree():
    d = tempfile.mkdtemp(prefix="mcxseed_")
    wt = os.path.join(d, "r")
    subprocess.check_call(["git", "-C", "/repo", "worktree", "add", "--detach", "-q", wt, "HEAD"])
    return d, wt


def drop(d):
    sh(["git", "-C", "/repo", "worktree", "remove", "--force", os.path.join(d, "r")])
    shutil.rmtree(d, ignore_errors=True)
    sh(["git", "-C", "/repo", "worktree", "prune"])


def run_demo(wt, demo):
    # demos insert their own worktree root in sys.path; run a copy placed inside the fresh worktree
    os.makedirs(os.path.join(wt, "seed_out"), exist_ok=True)
    dst = os.path.join(wt, "seed_out", "demo.py")
    with open(demo) as f:
        src = f.read()
    src = re.sub(r"/tmp/seed/C\d+[a-z]", wt, src)
    with open(dst, "w") as f:
        f.write(src)
    env = dict(os.environ, PYTHONPATH=wt, PYTHONDONTWRITEBYTECODE="1")
    r = sh(["/venv/bin/python", "seed_out/demo.py"], cwd=wt, env=env, timeout=900)
    return r.returncode, (r.stdout + r.stderr)[-600:]


def intake(src, sid, pid, tests=True):
    out = os.path.join(SEEDED, sid)
    os.makedirs(out, exist_ok=True)
    for f in ("patch.diff", "demo.py", "notes.md"):
        p = os.path.join(src, "seed_out", f)
        if os.path.exists(p):
            shutil.copy(p, os.path.join(out, f))
    meta = {"seed": sid, "property": pid, "repo_head": sh(["git", "-C", "/repo", "rev-parse", "--short", "HEAD"]).stdout.strip()}
    d, wt = worktree()
    try:
        rc0, out0 = run_demo(wt, os.path.join(out, "demo.py"))
        meta["demo_without_patch_exit"] = rc0
        ap = sh(["git", "-C", wt, "apply", "--whitespace=nowarn", os.path.join(out, "patch.diff")])
        meta["patch_applies"] = ap.returncode == 0
        if ap.returncode != 0:
            meta["apply_error"] = ap.stderr[-400:]
        else:
            rc1, out1 = run_demo(wt, os.path.join(out, "demo.py"))
            meta["demo_with_patch_exit"] = rc1
            meta["demo_with_patch_tail"] = out1[-300:]
            if tests:
                shutil.rmtree(os.path.join(wt, "seed_out"), ignore_errors=True)
                r = sh([os.path.join(VERIF, "tools", "baseline.sh"), wt])
                meta["baseline_with_patch"] = r.stdout.strip()
        meta["confirmed"] = bool(meta.get("patch_applies") and rc0 == 0 and meta.get("demo_with_patch_exit", 0) != 0
                                 and (not tests or "641 passed" in meta.get("baseline_with_patch", "")
                                      and "failed" not in meta.get("baseline_with_patch", "")))
    finally:
        drop(d)
    with open(os.path.join(out, "meta.json"), "w") as f:
        json.dump(meta, f, indent=1)
    print(json.dumps(meta, indent=1))
    return meta


def run(sid, checks, tier="quick"):
    out = os.path.join(SEEDED, sid)
    with open(os.path.join(out, "meta.json")) as f:
        meta = json.load(f)
    checks = checks or [meta["property"]]
    d, wt = worktree()
    # (runs with VERIF_REPO set write their evidence under replays/scratch-evidence, never into evidence/)
    try:
        ap = sh(["git", "-C", wt, "apply", "--whitespace=nowarn", os.path.join(out, "patch.diff")])
        if ap.returncode != 0:
            print("patch does not apply:", ap.stderr[-300:])
            return
        env = dict(os.environ, VERIF_REPO=wt)
        det = meta.setdefault("detection", {})
        for pid in checks:
            r = sh(["/venv/bin/python", os.path.join(VERIF, "mcx", "run.py"), pid, tier], env=env)
            lines = [l for l in r.stdout.splitlines() if l.startswith(("  violation", "INFRA"))]
            det["%s:%s" % (pid, tier)] = {"exit": r.returncode, "first": (lines[0][:300] if lines else "")}
            print("%s vs %s %s: exit=%d %s" % (sid, pid, tier, r.returncode, lines[0][:260] if lines else ""))
            if r.returncode == 2:
                print(r.stdout[-1200:])
    finally:
        drop(d)
    with open(os.path.join(out, "meta.json"), "w") as f:
        json.dump(meta, f, indent=1)


def main(argv):
    if argv[1] == "intake":
        intake(argv[2], argv[3], argv[4], tests="--no-tests" not in argv)
    elif argv[1] == "run":
        tier = "quick"
        args = argv[3:]
        if "--tier" in args:
            i = args.index("--tier")
            tier = args[i + 1]
            args = args[:i] + args[i + 2:]
        run(argv[2], args, tier)
    elif argv[1] == "runall":
        tier = argv[argv.index("--tier") + 1] if "--tier" in argv else "quick"
        for sid in sorted(os.listdir(SEEDED)):
            if os.path.exists(os.path.join(SEEDED, sid, "meta.json")):
                run(sid, [], tier)


if __name__ == "__main__":
    main(sys.argv)

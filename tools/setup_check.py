#!/venv/bin/python
"""MANIFEST.setup_cmd: nothing to build (pure Python, runs from files on disk);
verifies that the interpreter, the repository and the framework import offline."""
import os, sys
sys.path.insert(0, os.path.dirname(os.path.dirname(os.path.abspath(__file__))))
from mcx.common import setup_path, REPO
setup_path()
import tradingenv, numpy, pandas
assert os.path.abspath(tradingenv.__file__).startswith(os.path.abspath(REPO)), tradingenv.__file__
for d in ("evidence", "replays"):
    os.makedirs(os.path.join(os.path.dirname(os.path.dirname(os.path.abspath(__file__))), d), exist_ok=True)
print("setup ok: tradingenv from", tradingenv.__file__)

#!/venv/bin/python
"""Runs the hand-written mutant battery (mutants/battery.json): each mutant is applied to a scratch
worktree of /repo HEAD, optionally the pinned suite is run on it, then its target checks (quick tier).
Writes mutants/RESULTS.md.   usage: battery.py [--tests] [ids...]"""
import json
import os
import subprocess
import sys

sys.path.insert(0, os.path.dirname(os.path.abspath(__file__)))
import seed as S


def main(argv):
    tests = "--tests" in argv
    only = [a for a in argv[1:] if not a.startswith("--")]
    battery = json.load(open(os.path.join(S.VERIF, "mutants", "battery.json")))
    rows = []
    for m in battery:
        if only and m["id"] not in only:
            continue
        d, wt = S.worktree()
        try:
            path = os.path.join(wt, m["file"])
            with open(path, newline="") as f:
                src = f.read()
            old, new = m["old"], m["new"]
            if "\r\n" in src:
                old, new = old.replace("\n", "\r\n"), new.replace("\n", "\r\n")
            if old not in src:
                rows.append((m, "pattern not found", {}, ""))
                print(m["id"], "pattern not found", flush=True)
                continue
            with open(path, "w", newline="") as f:
                f.write(src.replace(old, new, 1))
            base = ""
            if tests:
                base = S.sh([os.path.join(S.VERIF, "tools", "baseline.sh"), wt]).stdout.strip()
            env = dict(os.environ, VERIF_REPO=wt)
            res = {}
            for pid in m["checks"]:
                r = S.sh(["/venv/bin/python", os.path.join(S.VERIF, "mcx", "run.py"), pid, "quick"], env=env)
                first = [l for l in r.stdout.splitlines() if l.startswith("  violation")]
                res[pid] = (r.returncode, first[0][:160] if first else "")
            rows.append((m, "ok", res, base))
            print(m["id"], {k: v[0] for k, v in res.items()}, base, flush=True)
        finally:
            S.drop(d)
    out = ["# Hand-written mutant battery (tools/battery.py)", "",
           "Each mutant is one literal substitution in a scratch copy of the repository; `exit 1` = the check reported a VIOLATION,",
           "`exit 0` = silent, `exit 2` = infrastructure error. `suite` = result of the pinned test suite on the mutant (when run with --tests).", "",
           "| id | change | check: exit | suite |", "|---|---|---|---|"]
    for m, status, res, base in rows:
        cell = status if status != "ok" else ", ".join("%s: %d" % (k, v[0]) for k, v in res.items())
        out.append("| %s | %s (`%s`) | %s | %s |" % (m["id"], m["what"], m["file"].split("/")[-1], cell, base))
    with open(os.path.join(S.VERIF, "mutants", "RESULTS.md"), "w") as f:
        f.write("\n".join(out) + "\n")
    print("\n".join(out))


if __name__ == "__main__":
    main(sys.argv)

#!/venv/bin/python
"""Every kept seed against every check (quick tier): prints `seed check exit` lines and writes
seeded/MATRIX.json.  One scratch worktree per seed; /repo itself is never modified."""
import json, os, subprocess, sys, shutil
sys.path.insert(0, os.path.dirname(os.path.abspath(__file__)))
import seed as S

CHECKS = ["C%02d" % i for i in range(1, 20)]


def main():
    out_path = os.path.join(S.SEEDED, "MATRIX.json")
    matrix = {}
    if os.path.exists(out_path):
        matrix = json.load(open(out_path))
    only = sys.argv[1:]
    for sid in sorted(os.listdir(S.SEEDED)):
        if not os.path.exists(os.path.join(S.SEEDED, sid, "patch.diff")) or (only and sid not in only):
            continue
        if sid in matrix and len(matrix[sid]) == len(CHECKS):
            continue
        d, wt = S.worktree()
        try:
            ap = S.sh(["git", "-C", wt, "apply", "--whitespace=nowarn", os.path.join(S.SEEDED, sid, "patch.diff")])
            if ap.returncode != 0:
                print(sid, "patch does not apply")
                continue
            env = dict(os.environ, VERIF_REPO=wt)
            row = matrix.setdefault(sid, {})
            for pid in CHECKS:
                if pid in row:
                    continue
                r = S.sh(["/venv/bin/python", os.path.join(S.VERIF, "mcx", "run.py"), pid, "quick"], env=env)
                row[pid] = r.returncode
                print(sid, pid, r.returncode, flush=True)
                json.dump(matrix, open(out_path, "w"), indent=1, sort_keys=True)
        finally:
            S.drop(d)


if __name__ == "__main__":
    main()

#!/venv/bin/python
"""Regenerates /verif/MANIFEST.json from the table below (single source of truth
for what is claimed) and validates it against the schema."""
import json
import os
import sys

VERIF = os.path.dirname(os.path.dirname(os.path.abspath(__file__)))
sys.path.insert(0, VERIF)

CHECKS = {
    # pid: (level, technique, text, note, design_ref)
    "C01": ("model_checking",
            "explicit-state BFS over real Broker states with an exact reference ledger in lock-step",
            "Every history of <= 4 (quick) / 5-6 (thorough) operations over {4 quotes x 2 contracts, +-1/+-2 lot trades, "
            "mark-to-market (all/one), valuation, 3 rebalance targets} is executed on the real Broker for 6 contract universes "
            "(spot, user-defined multiplier 4 and 0.5, margined r=1/4, 1/2, 1, ES-like m=50 r=0.1, a three-contract universe) x fee schedules, "
            "with units where interest accrues inside rebalances and a -50% quote in the palette; after every "
            "transition NLV and positions are compared with deposit+interest-commissions+sum m(q*liq-cost) computed in exact "
            "rationals from the operation parameters. States are deduplicated on every field Broker reads.",
            "Bounded: depth, 2 contracts per universe, palette of quotes; interest amount trusted from profit_on_idle_cash (C06). "
            "Trusted base: the reference ledger (40 lines), pickle snapshots of Broker.",
            "DESIGN 4/C01"),
    "C05": ("model_checking",
            "explicit-state BFS over real Broker states; margin identity and NLV decomposition checked at every observation point",
            "Same exploration as C01; at every valuation / mark-to-market point, and for the traded contract right after each "
            "trade, margin_c = requirement x multiplier x |q| x liquidation price (>= 0, 0 when flat or unmargined), "
            "cash + margins + fully-paid liquidation values = reported NLV, weights = q x liq x mult / NLV, "
            "holdings_values('liquidation') and context() agree.",
            "Same bounds as C01. A state right after a bare quote update is not an observation point (statement does not claim it).",
            "DESIGN 4/C05"),
    "C04": ("exploration",
            "bounded-exhaustive enumeration of event placements/configurations on the real TradingEnv+Transmitter with a recording observer, compared with a delivery reference model",
            "Latency {0,30s} x fold {whole, late, middle, three windows whose boundaries fall between timesteps} x history {all, markov, warm-up 1 or 2 gaps} fully crossed, times every assignment of grid shape "
            "(minutes, days across a weekend, mixed gaps), 1-2 contracts, episode length/start (through a chooser seam on numpy.random.choice), unsorted+duplicated "
            "grid input, insertion order, and every multiset of extra quote/custom events over ~26 region/boundary positions, within a total deviation bound "
            "(2 quick / 3 thorough); two consecutive episodes per configuration. Oracle: exactly-once delivery at the right step and side of the execution, "
            "reset replay per warm-up/markov rule, global timestamp order incl. reset/step/done/new-date stamps, env.now(), track-record stamps, book state after reset.",
            "Bar streams (a quote per contract per grid point); zero actions; leniencies for events before the first grid point under markov reset and "
            "events stamped before the warm-up horizon whose slot is inside it.",
            "DESIGN 4/C04"),
    "C08": ("exploration",
            "bounded-exhaustive enumeration of complete episodes: all action sequences x delays x latency-boundary quotes on the real TradingEnv",
            "5-bar streams x latency {0,30s} x all subsets of <=1 (quick) / <=2 (thorough) extra quotes at {t+1s, t+L, t+L+1s, t'-1s} x delay 0..3 x "
            "{Box, Discrete (zero / non-zero first allocation)} x all 81 action sequences over 3 pairwise-distinct actions: executed allocation = decision "
            "submitted d steps earlier (null action first), one execution per decision in order, every trade priced at the last quote stamped <= t+latency, "
            "quotes in (t+L, t'] applied only after the execution.",
            "Bar-shaped streams; null action inside the space.",
            "DESIGN 4/C08"),
    "C10": ("exploration",
            "exhaustive enumeration of call histories (differential probe vs fresh environment) and of ALL interleavings of two environments' call scripts",
            "Sequential: every call history of length <= 3 (quick) / 5 (thorough) over {reset fold1/fold2, step a1/a2, malformed step, run-to-done} on 5 "
            "configurations, then a probe episode compared bit-for-bit with a never-used identical environment. Schedules: all C(2n,n) interleavings (n=4 quick, "
            "5 thorough) of two environments' scripts for 7 pairs incl. two ES-chain environments at different dates sharing the process-wide contract clock; "
            "each trace must equal its run-alone trace.",
            "Environments constructed before the first interleaved call; library features only; no random episode start.",
            "DESIGN 4/C10"),
    "C12": ("exploration",
            "bounded-exhaustive: every reachable broker state (ledger BFS) x target x threshold (exact boundary cases on power-of-two palettes) x lot mode against R-FILTER",
            "From every broker state reached within 2 (quick) / 3 (thorough) operations, Rebalancing.make_trades and the executed Broker.rebalance are compared "
            "with the emission rule of the statement for 8 weight targets, 4 contract targets, 18 sub/super-lot targets, thresholds {0, |w|/2, 2|w|} and - where "
            "all arithmetic is exact - {|w|-2^-20, |w|, |w|+2^-20}, fractional and whole-lot.",
            "NLV > 0, all quotes present. Whole-lot threshold verdict accepted for either pre- or post-truncation weight.",
            "DESIGN 4/C12"),
    "C19": ("exploration",
            "whole-domain enumeration of (class, year, month) and a lattice of chain spans against a stdlib calendar reference",
            "All 8 built-in classes x 1970..2099 x 12 months (12480 contracts, the complete domain) plus FutureChain for every class over spans of "
            "1/2/5/30/130 years on a yearly lattice with start-month offsets 0-2 and chain month offsets 0-1: expiry rule, last trading date < expiry, symbol, "
            "ordering, century-unique symbols, one discontinuation event per contract at its expiry.",
            "Exhaustive for single contracts; chains on a lattice of spans.",
            "DESIGN 4/C19"),
    "C03": ("model_checking",
            "every reachable broker state (ledger BFS) x target menu: one real Broker.rebalance transition each, checked against exact target arithmetic",
            "From every state reached by the ledger BFS within 2-3 (quick) / 3-4 (thorough) operations (long, short, leveraged, mixed spot/margined holdings, "
            "6 universes x fee schedules), one Broker.rebalance per element of 8 weight targets (negative, >1, zero) and 4 contract targets: position x multiplier x "
            "execution-side quote = w x NLV before trading (incl. the interest credited by that rebalance in the sources with a 5% rate), untargeted holdings closed "
            "(incl. a three-contract universe where the target names two of three held contracts), contract targets exact; when the market is frictionless, weights = w, NLV "
            "unchanged and an immediate second rebalance trades < 1e-9 NLV.",
            "Threshold 0 only (C12 covers thresholds); rebalances whose own trades ruin the account excluded (C09).",
            "DESIGN 4/C03"),
    "C06": ("model_checking",
            "explicit-state BFS over accrual/query/rebalance histories on a real Broker vs a 50-digit closed form; all 2^(n-1) compositions of an interval",
            "Balances {+4096, -1024, 0} x with/without a margined position x 5 rates x 3 markups; histories of <= 4 (quick) / 6 (thorough) operations over "
            "{accrue/query +1s,+1d,+365d,+10y, same-instant accrue/query, backwards accrual, empty rebalance}: amount = balance x ((1+r-/+m)^(dt/365d)-1) with the "
            "no-charge floor, queries change nothing, same-instant adds nothing, earlier time rejected with state unchanged, margin earns nothing; every cut "
            "pattern of 6/8 atomic units (1s, 1d, 73d, 5y) gives the single-accrual balance.",
            "Constant rate within a history; first-ever query starting the clock left open.",
            "DESIGN 4/C06"),
    "C13": ("fault_enumeration",
            "fault enumeration: every reachable broker state x every quote-loss assignment x valuation/weights/rebalance probes",
            "Every state of the ledger BFS (depth 2 quick / 3 thorough) x all 24 assignments of {none, bid NaN, ask NaN, both NaN, discontinued then re-quoted} to "
            "the two traded contracts, plus a never-quoted third contract, x {valuation, weights, 8 rebalance targets}: valuation raises iff a non-zero position "
            "lost its liquidation side (never 0/NaN), flat positions never need a quote, a rebalance needing a missing execution quote raises and leaves positions, "
            "track record and cash+margins unchanged, a successful one has finite trades and a consistent ledger, dead books stay dead; plus environment-level "
            "episodes where the same faults arrive as events while a long/short spot or margined position is held: TradingEnv.step must raise, never return a reward.",
            "Interest rate 0; a trade missing only its non-execution side may or may not fail.",
            "DESIGN 4/C13"),
    "C14": ("model_checking",
            "explicit-state BFS over a real Exchange (quotes, discontinuations, clock moves over asset/future/chain keys) with a dict reference in lock-step",
            "All histories of <= 4 (quick) / 5 (thorough) operations over 23 operations {quote one of 3 (bid,ask) pairs on asset A, asset B, future F1, F2 or the "
            "chain key; discontinue any of them; move the contract clock before/at/after F1's last trading instant}; after every transition every query form "
            "(bid/ask/mid/spread, acq/liq price for +1/-1/0, vector forms, is_alive, full history) for 7 keys incl. string keys is compared with the reference.",
            "One timestamp per quote; history kept in the state key as length + last two entries.",
            "DESIGN 4/C14"),
    "C09": ("fault_enumeration",
            "fault enumeration: ruinous price paths at every point of a step x positions x rewards x all follow-up call scripts, judged by an independent ledger",
            "5 leveraged/short/margined positions x adverse moves (NLV exactly 0 and negative) at bar 1-3 applied as a latent quote before the decision or as the "
            "bar after it, with/without recovery (as bar or latent quote), plus non-positive initial cash, x 4 reward functions x every call script "
            "step,(step|step-other|reset)^4 (quick) / ^5 (thorough): a decision arriving with ledger NLV <= 0 executes nothing, the insolvent step reports done, "
            "later steps are refused unchanged until reset, reset restores a solvent empty account, valuation raises iff NLV <= 0.",
            "Three manifestations of one defect (step() raising from the reward computation at ruin) are listed in known_findings.json by traceback "
            "signature and reported as KNOWN-FINDING; anything else is a VIOLATION.",
            "DESIGN 4/C09"),
    "C15": ("exploration",
            "bounded-exhaustive: grids x every fold window x every episode length x every start offered (chooser seam); all walk-forward parameters",
            "Grids of 3-5 (quick) / 3-8 (thorough) points with event-less points x EVERY fold window over grid points, midpoints and beyond-the-ends x episode "
            "length None/1..size+1 x sampling span x every start handed to numpy.random.choice, plus overlapping fold pairs: visited steps are exactly the "
            "consecutive event-bearing points of the fold slice, n decisions, candidate set = all fitting positions with p>0, refusal when none fits; all 910 "
            "walk-forward (N<=14, train, test, sliding/expanding) cases: test windows disjoint, ordered, sized, starting right after their training window.",
            "Steps observed through env.now(); TradingEnv(episode_length=n) = n decisions.",
            "DESIGN 4/C15"),
    "C17": ("fault_enumeration",
            "fault enumeration: every malformed action of a menu injected at every step of short episodes x spaces x cash placement x delays",
            "10 spaces (Box [0,1], Box [-1,1.5], whole-lot contract Box, Discrete; contracts without cash / cash first / cash last) x delay 0-2 x ~14 malformed "
            "actions (wrong length, 2-D, one ulp / 1 out of bounds, NaN, inf, None, string, bad indices) at every step position: rejected no later than due, "
            "account and track record unchanged across the raising call, never executed; in-space actions executed as the allocation they denote with cash "
            "entries ignored and positions = w x NLV / execution price.",
            "bool indices excluded (gymnasium accepts them).",
            "DESIGN 4/C17"),
    "C02": ("exploration",
            "non-interference by exhaustive enumeration of streams grouped into prefix-equivalence classes; tabular API by exhaustive perturbation patterns of later rows",
            "Core API: for every setting (latency x delay x fold x history mode x script x {library features + recording feature, windowed State}) EVERY stream of "
            "4 (quick) / 5 (thorough) bars x 2 contracts x 2 prices per bar, with and without one extra quote/custom event at each latency-boundary position, is "
            "executed once; the cumulative outputs at each step are filed under the events stamped <= t (and the next execution's trades under events stamped "
            "<= t+latency): a class holding two different outputs is a violation. Tabular API: transformer x window x fit date x cut date x patterns "
            "{keep, replace, NaN} on the following rows of X and Y, appended rows, truncation: trace up to the cut bit-identical.",
            "Library features, a recording feature and State only; all streams keep a quote at every grid point; done excluded.",
            "DESIGN 4/C02"),
    "C07": ("exploration",
            "bounded-exhaustive complete episodes (all action sequences) replayed into an independent ledger fed only by the track record and quote history",
            "3 contract mixes (ETF + user margined, multiplier-4 spot + ES-like, ETF + ES chain across a roll) x latency {0,30s} x delay {0,1} x 4 rewards x "
            "{frictionless, spread+fees+markup+changing rate path} x ALL 3^(bars-1) action sequences: one entry per decision, strictly increasing stamps equal to "
            "the latest event processed before the execution, recorded pre/post NLV, holdings, weights, margins reproduced by replaying recorded trades and "
            "interest against the exchange's quote history, reporting frames equal the entries, each reward equals its stated function, simple returns compound "
            "to final/initial NLV when nothing accrues.",
            "Commission and interest amounts themselves are C01's and C06's subject.",
            "DESIGN 4/C07"),
    "C11": ("exploration",
            "region enumeration of the piecewise-constant lead resolution (every breakpoint, both sides, one interior point) + bounded-exhaustive roll episodes on the real TradingEnv",
            "Lead: 8 classes x start years x spans x month offsets 0-2, every last-trading instant L, L-1s, L+1s, interval midpoints, also through the shared clock "
            "(symbol, Exchange[chain], allocation keys): earliest last-trading date strictly later than now, never past it, monotone. Roll: ES/VX (quick) + NK/ZN "
            "(thorough) chains (month offset 0 and 1) x strides 1-5 business days x every phase x periodic action scripts over {+w,-w,0,w+small,+3%,-3%} x spread x threshold: after every "
            "rebalance every non-lead contract is flat, the lead position matches the target at prevailing quotes, nothing is held at or after expiry.",
            "Grids with no step in [last trading, expiry) of a held contract are outside the statement's proviso (skipped, counted). Latency 0.",
            "DESIGN 4/C11"),
    "C16": ("exploration",
            "small-scope exhaustive enumeration of level series against a pure-Python reference; every single-defect corruption",
            "ALL level series of length 2..4 (quick) / 5 (thorough) over a 6-value alphabet x 5 index shapes (daily, weekend gap, intraday collapsing to daily, "
            "month gaps, mixed): 12 scalar metrics with/without risk-free, returns/log-returns/drawdown series, DataFrame columns, risk-free level series, "
            "tracking error, scalings; every NaN/zero/negative/duplicate-stamp/swapped-stamp/non-datetime-index corruption rejected by every metric; "
            "TrackRecord.tearsheet rows.",
            "Small scope only: arbitrary real values and long series are outside any bounded enumeration. Undefined ratios (zero denominator) only required non-finite.",
            "DESIGN 4/C16"),
    "C18": ("exploration",
            "deviation-bounded enumeration of table shapes and TradingEnvXY settings, every reset/step compared with the published tables",
            "window x stride fully crossed, times every assignment of table shapes (holiday row, weekend row, feature index earlier/later/sparse/extra, NaN "
            "patterns), assets, transformer, clip, spread, rate, start/end bounds, folds, delay within a deviation bound (2 quick / 3 thorough), windows up to 30 "
            "on a 70-day table: observation = last window rows (stride from the newest) of env.X dated <= now with declared shape/bounds/clip, quotes = env.Y "
            "price widened by the spread, given rate, steps only on non-holiday dates of the price table after a full window exists; env.X re-derived "
            "independently for transformer=None.",
            "Constructor refusals are not violations; NYSE holiday table from pandas_market_calendars (memoised).",
            "DESIGN 4/C18"),
}

ALL = ["C%02d" % i for i in range(1, 20)]
def added_dimensions():
    """The 'what each check enumerates NOW' table of DESIGN.md 10.1: dimensions added after independently seeded changes slipped through."""
    out = {}
    try:
        with open(os.path.join(VERIF, "DESIGN.md")) as f:
            lines = f.read().split("| check | dimensions added to the first plan |", 1)[1].splitlines()
    except Exception:
        return out
    for ln in lines[2:]:
        if not ln.startswith("| C"):
            break
        pids, dims = [x.strip() for x in ln.strip().strip("|").split("|", 1)]
        for pid in pids.split("/"):
            pid = pid if pid.startswith("C") else "C" + pid
            out[pid] = dims
    return out


NOT_BUILT_REASON = "check not built yet in this session (planned in DESIGN.md section 4); nothing is claimed for it"


def main():
    global ADDED
    ADDED = added_dimensions()
    checks = []
    for pid in ALL:
        if pid not in CHECKS:
            continue
        level, technique, text, note, ref = CHECKS[pid]
        extra = ADDED.get(pid)
        if extra:
            text = text + " Dimensions added later (DESIGN 10.1, each because an independently written change slipped through without it): " + extra + "."
        checks.append({
            "property_id": pid,
            "quick_cmd": "/venv/bin/python /verif/mcx/run.py %s quick" % pid,
            "thorough_cmd": "/venv/bin/python /verif/mcx/run.py %s thorough" % pid,
            "evidence_file": "/verif/evidence/%s.json" % pid,
            "replay_cmd_template": "/venv/bin/python /verif/mcx/run.py replay {path}",
            "engine": "mcx",
            "level_claimed": {"category": level, "text": text, "design_ref": ref},
            "level_note": note,
            "technique": technique,
        })
    manifest = {
        "version": 1,
        "setup_cmd": "/venv/bin/python /verif/tools/setup_check.py",
        "hooks": {
            "guard": "TRADINGENV_VERIF",
            "enable": "no hooks are needed: checks import tradingenv from /repo's working tree and observe it through public "
                      "attributes and registered observers; seams (numpy.random.choice, contract clock) are patched from the harness process",
            "baseline_off_cmd": "cd /repo && /venv/bin/python -m pytest -ra -q -p no:cacheprovider --timeout=900 --continue-on-collection-errors",
            "source_commits": [],
            "add_only": True,
        },
        "engines": [{
            "name": "mcx",
            "path": "/verif/mcx",
            "serves_properties": [c["property_id"] for c in checks],
            "kind_free_text": "hand-written explicit-state / bounded-exhaustive explorer in Python driving the real tradingenv objects, "
                              "with boring reference models advanced in lock-step (every explored execution is validated against the implementation)",
        }],
        "checks": checks,
        "notes": "See DESIGN.md. Fix commits in /repo and known findings are listed in known_findings.json.",
        "not_applicable": [{"property_id": p, "reason": NOT_BUILT_REASON} for p in ALL if p not in CHECKS],
    }
    path = os.path.join(VERIF, "MANIFEST.json")
    with open(path, "w") as f:
        json.dump(manifest, f, indent=1)
    try:
        import jsonschema
        with open("/root/.vp/MANIFEST.schema.json") as f:
            jsonschema.validate(manifest, json.load(f))
        print("MANIFEST.json valid:", len(checks), "checks,", len(manifest["not_applicable"]), "not claimed")
    except FileNotFoundError:
        print("schema not found; written without validation")


if __name__ == "__main__":
    main()

#!/venv/bin/python
"""Regenerates /verif/MANIFEST.json from the table below (single source of truth
for what is claimed) and validates it against the schema."""
import json
import os
import sys

VERIF = os.path.dirname(os.path.dirname(os.path.abspath(__file__)))
sys.path.insert(0, VERIF)

CHECKS = {
    # pid: (level, technique, text, note, design_ref)
    "C01": ("model_checking",
            "explicit-state BFS over real Broker states with an exact reference ledger in lock-step",
            "Every history of <= 4 (quick) / 5-6 (thorough) operations over {4 quotes x 2 contracts, +-1/+-2 lot trades, "
            "mark-to-market (all/one), valuation, 3 rebalance targets} is executed on the real Broker for 6 contract universes "
            "(spot, user-defined multiplier 4 and 0.5, margined r=1/4, 1/2, 1, ES-like m=50 r=0.1) x fee schedules; after every "
            "transition NLV and positions are compared with deposit+interest-commissions+sum m(q*liq-cost) computed in exact "
            "rationals from the operation parameters. States are deduplicated on every field Broker reads.",
            "Bounded: depth, 2 contracts per universe, palette of quotes; interest amount trusted from profit_on_idle_cash (C06). "
            "Trusted base: the reference ledger (40 lines), pickle snapshots of Broker.",
            "DESIGN 4/C01"),
    "C05": ("model_checking",
            "explicit-state BFS over real Broker states; margin identity and NLV decomposition checked at every observation point",
            "Same exploration as C01; at every valuation / mark-to-market point, and for the traded contract right after each "
            "trade, margin_c = requirement x multiplier x |q| x liquidation price (>= 0, 0 when flat or unmargined), "
            "cash + margins + fully-paid liquidation values = reported NLV, weights = q x liq x mult / NLV, "
            "holdings_values('liquidation') and context() agree.",
            "Same bounds as C01. A state right after a bare quote update is not an observation point (statement does not claim it).",
            "DESIGN 4/C05"),
}

ALL = ["C%02d" % i for i in range(1, 20)]
NOT_BUILT_REASON = "check not built yet in this session (planned in DESIGN.md section 4); nothing is claimed for it"


def main():
    checks = []
    for pid in ALL:
        if pid not in CHECKS:
            continue
        level, technique, text, note, ref = CHECKS[pid]
        checks.append({
            "property_id": pid,
            "quick_cmd": "/venv/bin/python /verif/mcx/run.py %s quick" % pid,
            "thorough_cmd": "/venv/bin/python /verif/mcx/run.py %s thorough" % pid,
            "evidence_file": "/verif/evidence/%s.json" % pid,
            "replay_cmd_template": "/venv/bin/python /verif/mcx/run.py replay {path}",
            "engine": "mcx",
            "level_claimed": {"category": level, "text": text, "design_ref": ref},
            "level_note": note,
            "technique": technique,
        })
    manifest = {
        "version": 1,
        "setup_cmd": "/venv/bin/python /verif/tools/setup_check.py",
        "hooks": {
            "guard": "TRADINGENV_VERIF",
            "enable": "no hooks are needed: checks import tradingenv from /repo's working tree and observe it through public "
                      "attributes and registered observers; seams (numpy.random.choice, contract clock) are patched from the harness process",
            "baseline_off_cmd": "cd /repo && /venv/bin/python -m pytest -ra -q -p no:cacheprovider --timeout=900 --continue-on-collection-errors",
            "source_commits": [],
            "add_only": True,
        },
        "engines": [{
            "name": "mcx",
            "path": "/verif/mcx",
            "serves_properties": [c["property_id"] for c in checks],
            "kind_free_text": "hand-written explicit-state / bounded-exhaustive explorer in Python driving the real tradingenv objects, "
                              "with boring reference models advanced in lock-step (every explored execution is validated against the implementation)",
        }],
        "checks": checks,
        "notes": "See DESIGN.md. Fix commits in /repo and known findings are listed in known_findings.json.",
        "not_applicable": [{"property_id": p, "reason": NOT_BUILT_REASON} for p in ALL if p not in CHECKS],
    }
    path = os.path.join(VERIF, "MANIFEST.json")
    with open(path, "w") as f:
        json.dump(manifest, f, indent=1)
    try:
        import jsonschema
        with open("/root/.vp/MANIFEST.schema.json") as f:
            jsonschema.validate(manifest, json.load(f))
        print("MANIFEST.json valid:", len(checks), "checks,", len(manifest["not_applicable"]), "not claimed")
    except FileNotFoundError:
        print("schema not found; written without validation")


if __name__ == "__main__":
    main()

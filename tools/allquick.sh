#!/bin/bash
# usage: allquick.sh [seed...] : every check's quick tier for each seed, from fresh processes
cd "$(dirname "$0")/.."
for seed in "${@:-0}"; do
  for p in C01 C02 C03 C04 C05 C06 C07 C08 C09 C10 C11 C12 C13 C14 C15 C16 C17 C18 C19; do
    s=$(date +%s)
    VERIF_SEED=$seed /venv/bin/python mcx/run.py $p quick > /tmp/allquick_${seed}_$p.txt 2>&1
    rc=$?
    echo "seed=$seed $p exit=$rc secs=$(( $(date +%s)-s )) violations=$(grep -c '^VIOLATION' /tmp/allquick_${seed}_$p.txt)"
  done
done

#!/venv/bin/python
"""Run checks against a scratch copy of the repository carrying a change.

  mut.py --patch <file.diff> [--tests] C01 C05 ...       apply a unified diff
  mut.py --sub <relpath> <old> <new> [--tests] C12 ...    literal replacement (first occurrence)

The copy lives under /tmp and is removed afterwards; checks run with
VERIF_REPO=<copy> so /repo itself is never touched.  Evidence written during a
mutant run is restored afterwards."""
import os
import shutil
import subprocess
import sys
import tempfile

VERIF = os.path.dirname(os.path.dirname(os.path.abspath(__file__)))


def main(argv):
    args = argv[1:]
    tests = False
    tier = os.environ.get("MUT_TIER", "quick")
    d = tempfile.mkdtemp(prefix="mcxmut_")
    try:
        subprocess.check_call(["git", "-C", "/repo", "worktree", "add", "--detach", "-q", os.path.join(d, "r")],
                              stdout=subprocess.DEVNULL)
        repo = os.path.join(d, "r")
        # carry over uncommitted changes of /repo's working tree too
        diff = subprocess.run(["git", "-C", "/repo", "diff"], capture_output=True).stdout
        if diff.strip():
            subprocess.run(["git", "-C", repo, "apply", "--whitespace=nowarn", "-"], input=diff, check=True)
        pids = []
        i = 0
        while i < len(args):
            a = args[i]
            if a == "--patch":
                subprocess.check_call(["git", "-C", repo, "apply", "--whitespace=nowarn", os.path.abspath(args[i + 1])])
                i += 2
            elif a == "--sub":
                path = os.path.join(repo, args[i + 1])
                with open(path, newline="") as f:
                    s = f.read()
                old, new = args[i + 2], args[i + 3]
                if "\r\n" in s:
                    old = old.replace("\n", "\r\n")
                    new = new.replace("\n", "\r\n")
                if old not in s:
                    print("pattern not found in", path)
                    return 3
                s = s.replace(old, new, 1)
                with open(path, "w", newline="") as f:
                    f.write(s)
                i += 4
            elif a == "--tests":
                tests = True
                i += 1
            else:
                pids.append(a)
                i += 1
        if tests:
            r = subprocess.run([os.path.join(VERIF, "tools", "baseline.sh"), repo], capture_output=True, text=True)
            print("baseline on mutant:", r.stdout.strip())
        env = dict(os.environ, VERIF_REPO=repo)
        backup = os.path.join(d, "evidence")
        shutil.copytree(os.path.join(VERIF, "evidence"), backup)
        rc_all = {}
        for pid in pids:
            r = subprocess.run(["/venv/bin/python", os.path.join(VERIF, "mcx", "run.py"), pid, tier], env=env,
                               capture_output=True, text=True)
            lines = [l for l in r.stdout.splitlines() if l.startswith(("VIOLATION", "  violation", "INFRA", "KNOWN"))]
            print("== %s exit=%d" % (pid, r.returncode))
            for l in lines[:6]:
                print("   " + l[:400])
            if r.returncode == 2:
                print(r.stdout[-1500:], r.stderr[-1500:])
            rc_all[pid] = r.returncode
        shutil.rmtree(os.path.join(VERIF, "evidence"))
        shutil.copytree(backup, os.path.join(VERIF, "evidence"))
        return 0
    finally:
        subprocess.run(["git", "-C", "/repo", "worktree", "remove", "--force", os.path.join(d, "r")],
                       stdout=subprocess.DEVNULL, stderr=subprocess.DEVNULL)
        shutil.rmtree(d, ignore_errors=True)
        subprocess.run(["git", "-C", "/repo", "worktree", "prune"])


if __name__ == "__main__":
    sys.exit(main(sys.argv))

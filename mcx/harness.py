"""Builders for the real objects under exploration and the seams that own the
library's sources of nondeterminism (DESIGN 2.4)."""
from mcx.common import setup_path
setup_path()

import pickle
from datetime import datetime, timedelta
from fractions import Fraction as Fr

import numpy as np

import tradingenv
from tradingenv.broker.broker import Broker, EndOfEpisodeError
from tradingenv.broker.trade import Trade
from tradingenv.broker.fees import BrokerFees
from tradingenv.broker.rebalancing import Rebalancing
from tradingenv.exchange import Exchange
from tradingenv.events import EventNBBO, EventContractDiscontinued, IEvent
from tradingenv.contracts import AbstractContract, Cash, Rate

T0 = datetime(2020, 1, 1)
RATE = Rate("FED funds rate")


class UC(AbstractContract):
    """User-defined contract: spot-like (cash_requirement 1, margin 0) or margined
    (cash_requirement 0, margin requirement in (0, 1])."""

    def __init__(self, symbol, multiplier, cash_requirement, margin_requirement):
        self._symbol = symbol
        self._multiplier = multiplier
        self._cash_requirement = cash_requirement
        self._margin_requirement = margin_requirement

    symbol = property(lambda self: self._symbol)
    multiplier = property(lambda self: self._multiplier)
    cash_requirement = property(lambda self: self._cash_requirement)
    margin_requirement = property(lambda self: self._margin_requirement)


def spot(sym, mult=1.0):
    return UC(sym, float(mult), 1.0, 0.0)


def fut(sym, mult=2.0, req=0.25):
    return UC(sym, float(mult), 0.0, float(req))


def reset_clock():
    """Process-wide contract clock back to its import-time value."""
    AbstractContract.now = datetime.min


def make_exchange(contracts, quote=(100.0, 100.0), rate=0.0, t=T0):
    """An exchange seeded exactly as TradingEnv.reset seeds it (cash book 1:1,
    rate book), plus one opening quote per contract."""
    ex = Exchange()
    ex.process_EventNBBO(EventNBBO(t, Cash(), 1.0, 1.0))
    ex.process_EventNBBO(EventNBBO(t, RATE, rate, rate))
    if quote is not None:
        for c in contracts:
            ex.process_EventNBBO(EventNBBO(t, c, quote[0], quote[1]))
    return ex


def make_broker(contracts, deposit=65536.0, fixed=0.0, proportional=0.0, markup=0.0,
                quote=(100.0, 100.0), rate=0.0, epsilon=None):
    ex = make_exchange(contracts, quote, rate)
    fees = BrokerFees(markup=markup, interest_rate=RATE, proportional=proportional, fixed=fixed)
    if epsilon is not None:
        return Broker(ex, deposit=deposit, fees=fees, epsilon=epsilon)     # public option: size below which a position counts as flat
    return Broker(ex, deposit=deposit, fees=fees)


def snap(obj):
    return pickle.dumps(obj, pickle.HIGHEST_PROTOCOL)


def unsnap(b):
    return pickle.loads(b)


def fz(x):
    """normalise -0.0 and numpy scalars for state keys"""
    x = float(x)
    if x != x:
        return "nan"
    return x + 0.0


KNOWN_BROKER = {'_epsilon', '_holdings_margins', '_holdings_quantity', '_initial_deposit', '_last_accrual', '_last_marking_to_market_price',
                'base_currency', 'exchange', 'fees', 'track_record'}
KNOWN_EXCHANGE = {'_books', '_init_args', '_init_kwargs', '_nr_callbacks', '_observed_events', 'last_update', 'name'}
KNOWN_BOOK = {'ask_price', 'ask_size', 'bid_price', 'bid_size', 'history', 'is_alive', 'time'}


def _opaque(v):
    try:
        return pickle.dumps(v, pickle.HIGHEST_PROTOCOL)
    except Exception:
        return repr(v)


def hidden_state(b, contracts):
    """Any attribute the pinned Broker / Exchange / order book does NOT have (a cache, a memo, a 'last seen' stamp added by a
    change) is part of the state as far as deduplication goes: two states that differ only there must not be merged, or the
    search would go blind exactly where such a change matters.  Empty on the pinned tree, so the key is unchanged there."""
    out = [("b", k, _opaque(v)) for k, v in sorted(vars(b).items()) if k not in KNOWN_BROKER]
    ex = b.exchange
    out += [("x", k, _opaque(v)) for k, v in sorted(vars(ex).items()) if k not in KNOWN_EXCHANGE]
    for c in contracts:
        try:
            book = ex[c]
            out += [("k", c.symbol, k, _opaque(v)) for k, v in sorted(vars(book).items()) if k not in KNOWN_BOOK]
        except Exception:
            pass
    return tuple(out)


def hidden_exchange(ex):
    """the same guard for a bare Exchange (C14): attributes the pinned Exchange / order books do not have"""
    out = [("x", k, _opaque(v)) for k, v in sorted(vars(ex).items()) if k not in KNOWN_EXCHANGE]
    books = getattr(ex, "_books", None)
    if isinstance(books, dict):
        for bk_key, book in sorted(books.items(), key=lambda kv: str(kv[0])):
            try:
                out += [("k", str(bk_key), k, _opaque(v)) for k, v in sorted(vars(book).items()) if k not in KNOWN_BOOK]
            except TypeError:
                pass
    return tuple(out)


def broker_key(b, contracts):
    """Canonical broker state (DESIGN 2.1): every field a Broker method reads."""
    hq = tuple(sorted((str(getattr(k, "symbol", k)), fz(v)) for k, v in b._holdings_quantity.items() if v != 0 or isinstance(k, Cash)))
    hm = tuple(sorted((str(k.symbol), fz(v)) for k, v in b._holdings_margins.items() if v != 0))
    lm = tuple(sorted((str(k.symbol), fz(v)) for k, v in b._last_marking_to_market_price.items()))
    bk = []
    for c in contracts:
        book = b.exchange[c]
        bk.append((c.symbol, fz(book.bid_price), fz(book.ask_price), book.is_alive))
    return (hq, hm, lm, tuple(bk), b._last_accrual, hidden_state(b, contracts))


def liq_side(book, q):
    """Reference liquidation price (bid for longs, ask for shorts), as a float."""
    if q > 0:
        return book.bid_price
    if q < 0:
        return book.ask_price
    return 0.0


def exec_side(book, dq):
    return book.ask_price if dq > 0 else book.bid_price


class ChoiceSeam:
    """Owns numpy.random.choice for the duration of an execution: records the
    candidate set / probability vector and returns the index the enumerator asks
    for (DESIGN 2.4)."""

    def __init__(self, pick=0):
        self.pick = pick
        self.calls = []

    def __enter__(self):
        self._orig = np.random.choice

        def chooser(a, size=None, replace=True, p=None):
            cand = list(a) if not isinstance(a, int) else list(range(a))
            self.calls.append((cand, None if p is None else [float(x) for x in p]))
            pick = self.pick(len(cand)) if callable(self.pick) else self.pick
            if len(cand) == 0:
                return self._orig(a, size, replace, p)  # let numpy raise its own error
            return cand[pick % len(cand)]
        np.random.choice = chooser
        return self

    def __exit__(self, *exc):
        np.random.choice = self._orig
        return False


_CAL_CACHE = {}


def memo_calendars():
    """Memoise pandas_market_calendars.get_calendar(name).holidays() (a pure function of
    the calendar name, third-party code) to cut ~0.45 s from every TradingEnvXY build."""
    import pandas_market_calendars as pmc
    if getattr(pmc, "_mcx_memo", False):
        return
    orig = pmc.get_calendar

    class _Proxy:
        def __init__(self, cal):
            self._cal = cal
            self._hol = None

        def holidays(self):
            if self._hol is None:
                self._hol = self._cal.holidays()
            return self._hol

        def __getattr__(self, name):
            return getattr(self._cal, name)

    def get_calendar(name, *a, **k):
        key = (name, a, tuple(sorted(k.items())))
        if key not in _CAL_CACHE:
            _CAL_CACHE[key] = _Proxy(orig(name, *a, **k))
        return _CAL_CACHE[key]
    pmc.get_calendar = get_calendar
    pmc._mcx_memo = True


def memo_observed_events():
    """Observer.__new__ re-derives the observed-event table with inspect.signature on every
    instantiation - including every unpickle of an Exchange snapshot.  It is a pure function of
    the class, so the ledger-based searches memoise it per class (the real function still runs
    once per class)."""
    from tradingenv.events import Observer
    if getattr(Observer, "_mcx_memo", False):
        return
    orig = Observer._get_observed_events
    cache = {}

    def cached(self):
        cls = type(self)
        if cls not in cache:
            cache[cls] = orig(self)
        return dict(cache[cls])
    Observer._get_observed_events = cached
    Observer._mcx_memo = True

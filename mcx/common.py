"""Shared infrastructure: repo path, evidence, violations, replays, known findings,
parallel map.  Nothing here knows about a particular property."""
import os
import sys
import json
import time
import hashlib
import traceback
import multiprocessing as mp

VERIF = os.path.dirname(os.path.dirname(os.path.abspath(__file__)))
REPO = os.environ.get("VERIF_REPO", "/repo")
PY = "/venv/bin/python"
TOL = 1e-9


def setup_path():
    """Force the repository under test to the front of sys.path (current working
    tree of /repo, or VERIF_REPO for runs against scratch copies)."""
    if sys.path[0] != REPO:
        sys.path.insert(0, REPO)
    sys.dont_write_bytecode = True


def seed():
    try:
        return int(os.environ.get("VERIF_SEED", "0"))
    except ValueError:
        return 0


def nprocs(default=16):
    try:
        return max(1, int(os.environ.get("VERIF_PROCS", str(default))))
    except ValueError:
        return default


def close(a, b, tol=TOL):
    """Relative/absolute comparison used by every numeric oracle (DESIGN 2.3)."""
    a = float(a)
    b = float(b)
    if a != a or b != b:
        return (a != a) and (b != b)
    if a in (float("inf"), float("-inf")) or b in (float("inf"), float("-inf")):
        return a == b
    return abs(a - b) <= tol * max(1.0, abs(a), abs(b))


def impl_raised(ex):
    """True when the exception was raised inside the repository under test (or in a library it
    called), False when the innermost frame is the harness' own code (then it is an infrastructure
    problem, never an alarm)."""
    tb = traceback.extract_tb(ex.__traceback__)
    if not tb:
        return False
    inner = tb[-1].filename.replace("\\", "/")
    return "/mcx/" not in inner and "/verif/tools/" not in inner


def jsonable(x):
    """Best-effort conversion of a case description to JSON."""
    import datetime as _dt
    from fractions import Fraction
    if isinstance(x, dict):
        return {str(k): jsonable(v) for k, v in x.items()}
    if isinstance(x, (list, tuple, set, frozenset)):
        return [jsonable(v) for v in x]
    if isinstance(x, (str, int, bool)) or x is None:
        return x
    if isinstance(x, float):
        if x != x:
            return "nan"
        if x in (float("inf"), float("-inf")):
            return "inf" if x > 0 else "-inf"
        return x
    if isinstance(x, Fraction):
        return float(x)
    if isinstance(x, (_dt.datetime, _dt.date)):
        return x.isoformat()
    if isinstance(x, _dt.timedelta):
        return x.total_seconds()
    try:
        import numpy as np
        if isinstance(x, np.generic):
            return jsonable(x.item())
        if isinstance(x, np.ndarray):
            return jsonable(x.tolist())
    except Exception:
        pass
    return repr(x)


def digest(obj):
    return hashlib.sha1(json.dumps(jsonable(obj), sort_keys=True).encode()).hexdigest()[:12]


class Known:
    """known_findings.json: never written at run time."""

    def __init__(self):
        path = os.path.join(VERIF, "known_findings.json")
        try:
            with open(path) as f:
                data = json.load(f)
        except FileNotFoundError:
            data = {"known": [], "fixed": []}
        self.known = data.get("known", [])

    def match(self, pid, sig):
        for k in self.known:
            if k.get("property") == pid and k.get("signature") == sig:
                return k
        return None


class Report:
    """Collects coverage counters, violations and known findings of one check run;
    writes evidence/<id>.json and replay files; decides the exit status."""

    def __init__(self, pid, tier, level):
        self.pid = pid
        self.tier = tier
        self.level = level
        self.t0 = time.time()
        self.cov = {}
        self.assumptions = []
        self.violations = []   # (case, message, sig)
        self.known_seen = {}
        self.known = Known()
        self.infra_error = None

    def add(self, key, n=1):
        self.cov[key] = self.cov.get(key, 0) + n

    def set(self, key, value):
        self.cov[key] = value

    def merge_counts(self, counts):
        for k, v in counts.items():
            if isinstance(v, (int, float)) and not isinstance(v, bool):
                self.cov[k] = self.cov.get(k, 0) + v
            elif isinstance(v, (set, frozenset)):
                cur = self.cov.get(k)
                if not isinstance(cur, set):
                    cur = set()
                cur |= v
                self.cov[k] = cur
            elif isinstance(v, list):
                cur = self.cov.setdefault(k, [])
                for s in v:
                    if len(cur) < 6:
                        cur.append(s)
            else:
                self.cov[k] = v

    def violation(self, case, message, sig=None, group=None):
        """Register a violation (or a known finding when its structural signature
        is listed in known_findings.json)."""
        if sig is not None:
            k = self.known.match(self.pid, sig)
            if k is not None:
                ent = self.known_seen.setdefault(sig, {"entry": k, "count": 0, "example": jsonable(case)})
                ent["count"] += 1
                return
        self.violations.append((case, message, sig, group))

    def finish(self, replay_fn=None):
        """replay_fn(case) -> list of messages; used to confirm each violation from
        scratch before reporting it (DESIGN 2.4)."""
        # runs against a scratch copy (mutants, seeded changes: VERIF_REPO set) must not overwrite the evidence of the real tree
        self.evdir = os.path.join(VERIF, "evidence") if os.path.realpath(REPO) == "/repo" else os.path.join(VERIF, "replays", "scratch-evidence")
        os.makedirs(self.evdir, exist_ok=True)
        os.makedirs(os.path.join(VERIF, "replays"), exist_ok=True)
        confirmed = []
        seen_digest = set()
        # one representative per group first (diverse, shortest-first), then the rest
        ordered, rest, groups = [], [], set()
        for v in self.violations:
            if v[3] not in groups:
                groups.add(v[3])
                ordered.append(v)
            else:
                rest.append(v)
        for case, message, sig, _group in ordered + rest:
            d = digest(case)
            if d in seen_digest:
                continue
            seen_digest.add(d)
            if len(confirmed) >= 5:
                break
            if replay_fn is not None:
                try:
                    again = replay_fn(json.loads(json.dumps(jsonable(case))))
                except Exception:
                    again = ["replay raised: " + traceback.format_exc(limit=3)]
                if not again:
                    # not reproducible from its replay file: infrastructure problem, never an alarm
                    self.infra_error = "violation not reproducible on replay: %s" % message
                    continue
            path = os.path.join(VERIF, "replays", "%s-%s.json" % (self.pid, d))
            with open(path, "w") as f:
                json.dump({"property": self.pid, "case": jsonable(case), "message": message,
                           "signature": sig, "repo": REPO}, f, indent=1, sort_keys=True)
            test_path = os.path.join(VERIF, "replays", "test_%s_%s.py" % (self.pid, d))
            with open(test_path, "w") as f:
                f.write(_TEST_TEMPLATE % {"pid": self.pid, "path": path})
            confirmed.append((path, message))
        cov = {}
        for k, v in self.cov.items():
            if isinstance(v, set):
                cov[k] = len(v)
            else:
                cov[k] = jsonable(v)
        cov.setdefault("samples", [])
        ev = {
            "property_id": self.pid,
            "tier": self.tier,
            "seed": seed(),
            "level": self.level,
            "coverage": cov,
            "assumptions": self.assumptions,
            "wall_s": round(time.time() - self.t0, 3),
            "violations": len(confirmed),
            "known_findings_observed": [
                {"signature": s, "count": e["count"], "example": e["example"]} for s, e in self.known_seen.items()
            ],
            "repo": REPO,
        }
        try:
            import jsonschema  # optional in /venv
            with open("/root/.vp/EVIDENCE.schema.json") as f:
                jsonschema.validate(ev, json.load(f))
        except ImportError:
            pass
        except FileNotFoundError:
            pass
        except Exception as ex:
            # e.g. every case failed before producing an outcome: the violations below are what matters
            print("note: evidence does not validate against the schema: %s" % str(ex).splitlines()[0])
        with open(os.path.join(self.evdir, "%s.json" % self.pid), "w") as f:
            json.dump(ev, f, indent=1, sort_keys=True)
        for sig, ent in self.known_seen.items():
            print("KNOWN-FINDING: property=%s %s (observed %d times this run)"
                  % (self.pid, ent["entry"].get("description", sig), ent["count"]))
        summary = {k: v for k, v in cov.items() if k not in ("samples", "rule")}
        print("%s %s: %s wall=%.1fs" % (self.pid, self.tier, json.dumps(summary, sort_keys=True)[:1500], time.time() - self.t0))
        for path, message in confirmed:
            print("  violation: %s" % message[:1200])
            print("VIOLATION property=%s replay=%s" % (self.pid, path))
        if confirmed:
            return 1
        if self.infra_error:
            print("INFRASTRUCTURE-ERROR: %s" % self.infra_error)
            return 2
        return 0


_TEST_TEMPLATE = '''"""Generated replay of one counterexample for %(pid)s: runs the single recorded
case against the repository, no exploration involved.
Run: /venv/bin/python -m pytest -q -p no:cacheprovider <this file>"""
import sys, json
sys.path.insert(0, "/verif")
from mcx.run import replay_file


def test_replay():
    messages = replay_file("%(path)s")
    assert not messages, messages
'''


# ---------------------------------------------------------------------------
# parallel map over work units (fork, long-lived workers)

_WORK_FN = None


def _call(unit):
    try:
        return ("ok", _WORK_FN(unit))
    except Exception:
        return ("err", traceback.format_exc())


def pmap(fn, units, procs=None):
    """Run fn(unit) for every unit on a fork pool; yields results in completion
    order.  fn must be a module-level function (or closure available at fork)."""
    global _WORK_FN
    units = list(units)
    procs = min(procs or nprocs(), max(1, len(units)))
    _WORK_FN = fn
    if procs == 1:
        for u in units:
            st, r = _call(u)
            if st == "err":
                raise RuntimeError("worker failed:\n" + r)
            yield r
        return
    ctx = mp.get_context("fork")
    with ctx.Pool(procs) as pool:
        for st, r in pool.imap_unordered(_call, units, chunksize=1):
            if st == "err":
                pool.terminate()
                raise RuntimeError("worker failed:\n" + r)
            yield r

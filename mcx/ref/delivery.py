"""R-DELIVERY: which events an episode must deliver, when and in which order.
Written from the statement of C04 (lists and bisect only)."""
import bisect
from datetime import datetime


class Plan:
    pass


def slots(G, events, L, markov):
    """events: list of (time, key) in insertion order.
    Returns dict key -> (slot time, latent?, time, insertion index); events stamped
    after the end of the grid have no slot.  `early` = keys stamped before the
    first grid point (under markov reset the statement leaves them open)."""
    G = sorted(set(G))
    out = {}
    early = set()
    for idx, (t, key) in enumerate(events):
        if t > G[-1]:
            continue
        i = bisect.bisect_left(G, t)
        latent = i > 0 and (t - G[i - 1]).total_seconds() <= L
        out[key] = (G[i], latent, t, idx)
        if t < G[0]:
            early.add(key)
    return G, out, early


def make_plan(G, events, L, fold, markov=False, warmup=None, episode=None):
    """episode = (start index into the fold's steps, number of decisions) or None.
    Returns Plan with:
      steps          list of step times of the episode (steps[0] = reset)
      fold_steps     all event-bearing grid points of the fold
      reset_must     keys that must be delivered at reset, in order
      reset_may      keys that may or may not be delivered at reset (leniency)
      per_step[k]    (latent keys in order, nonlatent keys in order) for k >= 1
      never          keys that must never be delivered in this episode
    """
    G, sl, early = slots(G, events, L, markov)
    bearing = sorted({s for (s, _, _, _) in sl.values()})
    fold_steps = [s for s in bearing if fold[0] <= s <= fold[1]]
    p = Plan()
    p.G = G
    p.slots = sl
    p.fold_steps = fold_steps
    if not fold_steps:
        p.steps = []
        return p
    if episode is None:
        steps = fold_steps
    else:
        start, n = episode
        steps = fold_steps[start:start + n + 1]
    p.steps = steps
    order = sorted(sl, key=lambda k: (sl[k][2], sl[k][3]))
    must, may, never = [], set(), set()
    origin = (steps[0] - warmup) if warmup is not None else None
    per_step = {s: ([], []) for s in steps[1:]}
    for k in order:
        s, latent, t, _ = sl[k]
        if s == steps[0]:
            # the first step's own events are not history: the warm-up horizon does not apply to them
            if markov and k in early:
                may.add(k)
            else:
                must.append(k)
        elif s < steps[0]:
            if markov:
                never.add(k)
            elif origin is not None:
                if s < origin:
                    never.add(k)
                elif t < origin:
                    may.add(k)
                else:
                    must.append(k)
            else:
                must.append(k)
        elif s in per_step:
            per_step[s][0 if latent else 1].append(k)
        else:
            never.add(k)
    p.reset_must = must
    p.reset_may = may
    p.per_step = [per_step[s] for s in steps[1:]]
    p.never = never
    p.order_key = {k: (sl[k][2], sl[k][3]) for k in sl}
    return p

"""R-FILTER / target arithmetic, written from the statements of C03 and C12
(exact rationals; nothing imported from tradingenv.broker.rebalancing)."""
from fractions import Fraction as Fr


def is_pow2(x):
    x = Fr(x)
    if x <= 0:
        return False
    n, d = x.numerator, x.denominator
    return (n & (n - 1)) == 0 and (d & (d - 1)) == 0


def is_small_dyadic(x, bits=30):
    x = Fr(x)
    d = x.denominator
    return (d & (d - 1)) == 0 and abs(x.numerator) < (1 << bits) and d < (1 << bits)


def target_qty(measure, value, c, book, nlv):
    """Target position in number of contracts for one contract."""
    v = Fr(value)
    if v == 0:
        return Fr(0)
    if measure == "weight":
        px = Fr(book.ask_price) if v > 0 else Fr(book.bid_price)
        return v * nlv / px / Fr(c.multiplier)
    return v


def imbalance_table(ledger, exchange, cs, measure, alloc, nlv):
    """sym -> dict(target, held, imb, w_imb, targeted) for every contract."""
    out = {}
    for c, a in zip(cs, alloc):
        book = exchange[c]
        held = ledger.qty(c)
        tgt = target_qty(measure, a, c, book, nlv)
        imb = tgt - held
        if imb > 0:
            px = Fr(book.ask_price)
        elif imb < 0:
            px = Fr(book.bid_price)
        else:
            px = Fr(0)
        w = Fr(c.multiplier) * imb * px / nlv
        out[c.symbol] = {"target": tgt, "held": held, "imb": imb, "w": w, "targeted": Fr(a) != 0,
                         "contract": c}
    return out


def trunc(x):
    x = Fr(x)
    n = abs(x.numerator) // x.denominator
    return Fr(n if x >= 0 else -n)


def acceptable(row, threshold, fractional, exact, tol=1e-9):
    """Set of acceptable emitted quantities for one contract (None = no trade),
    per C12's statement, with the documented leniencies."""
    imb, w = row["imb"], row["w"]
    T = Fr(threshold)
    if imb == 0:
        return {None}
    liquidation = (row["held"] != 0) and (not row["targeted"])
    acc = set()
    # quantity
    if fractional:
        qtys = {imb}
    else:
        q = trunc(imb)
        qtys = {q if q != 0 else None}
        if not exact:
            # a float imbalance within rounding of an integer may truncate either way
            near = round(imb)
            if abs(float(imb) - near) <= tol * max(1.0, abs(near)):
                for cand in (near, near - 1 if near > 0 else near + 1):
                    qtys.add(Fr(cand) if cand != 0 else None)
    # threshold verdict (on the imbalance weight)
    aw = abs(w)
    verdicts = set()
    if liquidation:
        verdicts.add(True)
    else:
        if not exact and abs(float(aw) - float(T)) <= tol * max(1.0, float(T)):
            verdicts |= {True, False}
        else:
            verdicts.add(aw >= T)
    for v in verdicts:
        if v:
            acc |= qtys
        else:
            acc.add(None)
    return acc


def qty_matches(got, acc, tol=1e-9):
    if got is None:
        return None in acc
    for a in acc:
        if a is None:
            continue
        if abs(float(got) - float(a)) <= tol * max(1.0, abs(float(a))):
            return True
    return False

"""Requests built by an action space (PortfolioSpace.make_rebalancing_request), as TradingEnv.step builds them, executed on a
real Broker: every combination of measure (weights / numbers of contracts), lot mode and threshold of BoxPortfolio, and
DiscretePortfolio in both measures.  Used by C03 (targets reached) and C12 (threshold rule)."""
import itertools
from mcx.harness import *  # noqa
from tradingenv.spaces import BoxPortfolio, DiscretePortfolio

A_ = spot("A", 1.0)
B_ = spot("B", 1.0)
DEPOSIT = 1048576.0
PX = {"A": (128.0, 128.0), "B": (64.0, 64.0)}


def broker(hold=None):
    """broker with quotes A 128, B 64 (no spread, no fees); `hold` = contracts held {symbol: quantity}"""
    reset_clock()
    b = make_broker([A_, B_], deposit=DEPOSIT, quote=(128.0, 128.0))
    b.exchange.process_EventNBBO(EventNBBO(T0, B_, 64.0, 64.0))
    for c in (A_, B_):
        q = (hold or {}).get(c.symbol, 0.0)
        if q:
            bid, ask = PX[c.symbol]
            b.transact(Trade(T0, c, q, bid, ask, b.fees))
    return b


def spaces(threshold):
    """(name, space, measure, fractional) for every combination"""
    out = []
    for as_w, frac in itertools.product((True, False), repeat=2):
        lo, hi = (-1.0, 1.0) if as_w else (-4096.0, 4096.0)
        out.append(("Box(as_weights=%s, fractional=%s, margin=%s)" % (as_w, frac, threshold),
                    BoxPortfolio([A_, B_], lo, hi, as_weights=as_w, fractional=frac, margin=threshold), "weight" if as_w else "nr-contracts", frac))
    return out


def request(space, action, b, when=None):
    return space.make_rebalancing_request(action, (when or T0 + timedelta(days=1)), b)

"""Rebalancing requests whose underlying is a futures chain (used by C03 and C12).

A small bounded enumeration at broker level: ES chain with month offset 0/1, clock before / after the first roll,
account starting from cash or already holding the contract resolved two days earlier, zero or positive spread,
weight and contract-count targets, with and without a no-trade threshold.  The contract a chain denotes is
decided by an independent reference (earliest last-trading date strictly later than the clock, shifted by the
offset), never by the library."""
import itertools
from datetime import datetime, timedelta
from mcx.harness import *  # noqa
from tradingenv.contracts import ES, FutureChain

DEPOSIT = 1048576.0


def as_dt(x):
    return x.to_pydatetime() if hasattr(x, "to_pydatetime") else x


def ref_lead(contracts, now, offset):
    order = sorted(contracts, key=lambda c: as_dt(c.last_trading_date))
    for i, c in enumerate(order):
        if as_dt(c.last_trading_date) > now:
            j = i + offset
            return order[j] if j < len(order) else None
    return None


def cases():
    for month in (0, 1):
        for when in ("before", "after"):
            for spread in (0.0, 2.0):
                for start in ("cash", "held"):
                    yield (month, when, spread, start)


def setup(case):
    """Returns broker, chain, contracts, clock, price table {symbol: (bid, ask)}."""
    month, when, spread, start = case
    reset_clock()
    chain = FutureChain(ES, datetime(2021, 1, 1), datetime(2021, 12, 31), month=month)
    cs = list(chain.contracts)
    ltd = as_dt(cs[0].last_trading_date)
    now = ltd - timedelta(days=2) if when == "before" else ltd + timedelta(days=1)
    t0 = ltd - timedelta(days=4)
    ex = Exchange()
    ex.process_EventNBBO(EventNBBO(t0, Cash(), 1.0, 1.0))
    ex.process_EventNBBO(EventNBBO(t0, RATE, 0.0, 0.0))
    px = {}
    for j, c in enumerate(cs):
        px[c.symbol] = (3000.0 + 32.0 * j, 3000.0 + 32.0 * j + spread)
        ex.process_EventNBBO(EventNBBO(t0, c, *px[c.symbol]))
    b = Broker(ex, deposit=DEPOSIT, fees=BrokerFees(markup=0.0, interest_rate=RATE, proportional=0.0, fixed=0.0))
    AbstractContract.now = t0
    if start == "held":
        # two days before `now` minus two: the chain is bought through a request, so the account holds whatever the chain denoted then
        b.rebalance(Rebalancing(contracts=[chain], allocation=[0.25], measure="weight", time=t0))
    AbstractContract.now = now
    return b, chain, cs, now, px


def held(b, cs):
    return {c.symbol: float(b.holdings_quantity.get(c, 0.0)) for c in cs if b.holdings_quantity.get(c, 0.0) != 0}

"""Environment-level harness: recording observers, stream builders, episode
runner.  Used by C02, C04, C07, C08, C09, C10, C15, C17."""
from mcx.harness import *  # noqa
from tradingenv.env import TradingEnv
from tradingenv.transmitter import Transmitter
from tradingenv.state import IState
from tradingenv.features import Feature
from tradingenv.spaces import BoxPortfolio, DiscretePortfolio
from tradingenv.contracts import ETF
from tradingenv.events import EventReset, EventStep, EventDone, EventNewDate


class Custom(IEvent):
    def __init__(self, time, tag=None):
        self.time = time
        self.tag = tag


class Rec(IState):
    """Observer subscribed to every event type; appends
    (kind, id(event), event.time, len(track record) at delivery) to a sink that
    survives resets (the sink is an __init__ argument, re-passed by Observer.reset)."""

    def __init__(self, sink, features=None):
        self.sink = sink
        super().__init__(features, save=False)

    def _put(self, kind, event):
        n = len(self.broker.track_record) if self.broker is not None else None
        self.sink.append((kind, id(event), event.time, n))

    def process_EventNBBO(self, event):
        self._put("E", event)

    def process_Custom(self, event):
        self._put("E", event)

    def process_EventContractDiscontinued(self, event):
        self._put("E", event)

    def process_EventNewObservation(self, event):
        self._put("E", event)

    def process_EventNewDate(self, event):
        self._put("NewDate", event)

    def process_EventReset(self, event):
        self._put("Reset", event)

    def process_EventStep(self, event):
        self._put("Step", event)

    def process_EventDone(self, event):
        self._put("Done", event)


class RecTick(Rec):
    """Recording state that also VALUES the account at every quote (a tick-level user feature such as a running
    drawdown or a stop-loss monitor): valuations then happen between quotes that share one timestamp."""

    def process_EventNBBO(self, event):
        self._put("E", event)
        if self.broker is not None:
            try:
                self.broker.net_liquidation_value(False)
            except Exception:
                pass        # a contract without a quote yet (first bar being replayed): nothing to value


class OnlyCustom(Feature):
    """Second observer, subscribed to one event type only."""

    def __init__(self, sink):
        super().__init__(save=False)
        self.sink = sink

    def process_Custom(self, event):
        self.sink.append(("E", id(event), event.time, None))


class CustomStepsQuotes(OnlyCustom):
    """Third observer: a SUBCLASS of the single-type observer that subscribes to two more event types."""

    def process_EventStep(self, event):
        self.sink.append(("Step", id(event), event.time, None))

    def process_EventNBBO(self, event):
        self.sink.append(("Q", id(event), event.time, None))


class LateCustom(OnlyCustom):
    """Same subscriptions as OnlyCustom under another feature name (feature names must be unique within a state)."""


A = ETF("A")
B = ETF("B")


def bar_events(G, contracts, base=10.0, spread=0.0, step=1.0):
    """One quote per grid point per contract; every bar a distinct price."""
    out = []
    for i, g in enumerate(G):
        for j, c in enumerate(contracts):
            p = base + step * i + 100.0 * j
            out.append(EventNBBO(g, c, p - spread / 2, p + spread / 2))
    return out


def run_episode(env, actions, reset_kwargs=None, stop_on_done=True):
    """reset + step through `actions` (callable k -> action, or list); returns a
    trace dict.  Exceptions escaping reset/step are recorded, not raised."""
    tr = {"calls": [], "error": None}
    try:
        obs = env.reset(**(reset_kwargs or {}))
    except Exception as ex:
        tr["error"] = ("reset", ex)
        return tr
    tr["calls"].append(("reset", env.now(), env._done))
    k = 0
    while True:
        if stop_on_done and env._done:
            break
        if callable(actions):
            a = actions(k)
        else:
            if k >= len(actions):
                break
            a = actions[k]
        if a is None:
            break
        try:
            obs, reward, done, info = env.step(a)
        except Exception as ex:
            tr["error"] = ("step%d" % k, ex)
            return tr
        tr["calls"].append(("step", env.now(), done, reward, info))
        k += 1
    return tr

#!/venv/bin/python
"""CLI:  run.py <Cxx> <quick|thorough>   |   run.py replay <file>   |   run.py probe <Cxx>

Exit 0: property held on everything explored.  Exit 1 + `VIOLATION property=<id>
replay=<path>`: violation.  Exit 2: infrastructure error (never an alarm)."""
import os
import sys

sys.path.insert(0, os.path.dirname(os.path.dirname(os.path.abspath(__file__))))

if os.environ.get("PYTHONHASHSEED") != "0":
    # own the hash seed (contracts hash by symbol string): re-execute once
    os.environ["PYTHONHASHSEED"] = "0"
    os.environ["PYTHONDONTWRITEBYTECODE"] = "1"
    os.execv(sys.executable, [sys.executable] + sys.argv)

import json
import importlib
import subprocess
import warnings

warnings.filterwarnings("ignore")

MODULES = {
    "C01": ("mcx.checks.c01", {"pid": "C01"}),
    "C05": ("mcx.checks.c01", {"pid": "C05"}),
    "C02": ("mcx.checks.c02", {}),
    "C03": ("mcx.checks.c03", {}),
    "C04": ("mcx.checks.c04", {}),
    "C06": ("mcx.checks.c06", {}),
    "C07": ("mcx.checks.c07", {}),
    "C08": ("mcx.checks.c08", {}),
    "C09": ("mcx.checks.c09", {}),
    "C10": ("mcx.checks.c10", {}),
    "C11": ("mcx.checks.c11", {}),
    "C12": ("mcx.checks.c12", {}),
    "C13": ("mcx.checks.c13", {}),
    "C14": ("mcx.checks.c14", {}),
    "C15": ("mcx.checks.c15", {}),
    "C16": ("mcx.checks.c16", {}),
    "C17": ("mcx.checks.c17", {}),
    "C18": ("mcx.checks.c18", {}),
    "C19": ("mcx.checks.c19", {}),
}


def load(pid):
    name, kwargs = MODULES[pid]
    return importlib.import_module(name), kwargs


def replay_file(path):
    with open(path) as f:
        data = json.load(f)
    mod, kwargs = load(data["property"])
    return mod.replay(data["case"], **kwargs)


def determinism(pid, mod):
    """DESIGN 2.4: the probe execution is run twice in-process and once in a second
    process; the three logs must be identical."""
    if not hasattr(mod, "probe"):
        return True
    def safe():
        # an exception inside the probe scenario is an observation like any other (the check
        # itself decides whether it is a violation); only NON-determinism is an infrastructure error
        try:
            return mod.probe()
        except Exception as ex:
            return "EXC:%s:%s" % (type(ex).__name__, ex)
    a = safe()
    b = safe()
    env = dict(os.environ)
    out = subprocess.run([sys.executable, os.path.abspath(__file__), "probe", pid], env=env,
                         capture_output=True, text=True, timeout=600)
    c = out.stdout.strip().split("PROBE:", 1)[-1] if "PROBE:" in out.stdout else None
    if not (a == b == c):
        print("INFRASTRUCTURE-ERROR: nondeterministic probe for %s (in-process equal: %s, subprocess equal: %s)"
              % (pid, a == b, a == c))
        if out.returncode != 0:
            print(out.stderr[-2000:])
        return False
    return True


def main(argv):
    if len(argv) >= 3 and argv[1] == "replay":
        msgs = replay_file(argv[2])
        with open(argv[2]) as f:
            pid = json.load(f)["property"]
        for m in msgs:
            print("  " + m)
        if msgs:
            print("VIOLATION property=%s replay=%s" % (pid, argv[2]))
            return 1
        print("replay of %s: no violation" % argv[2])
        return 0
    if len(argv) >= 3 and argv[1] == "probe":
        mod, kwargs = load(argv[2])
        try:
            out = mod.probe()
        except Exception as ex:
            out = "EXC:%s:%s" % (type(ex).__name__, ex)
        print("PROBE:" + out)
        return 0
    if len(argv) < 2 or argv[1] not in MODULES:
        print(__doc__)
        return 2
    pid = argv[1]
    tier = argv[2] if len(argv) > 2 else os.environ.get("VERIF_TIER", "quick")
    if tier not in ("quick", "thorough"):
        tier = "quick"
    mod, kwargs = load(pid)
    try:
        if not determinism(pid, mod):
            return 2
        return mod.run(tier, **kwargs)
    except Exception:
        import traceback
        print("INFRASTRUCTURE-ERROR: check %s crashed\n%s" % (pid, traceback.format_exc()))
        return 2


if __name__ == "__main__":
    sys.exit(main(sys.argv))

"""C10 reproducible episodes, isolated environments.

(a) sequential: every call history of bounded depth over {reset(f1), reset(f2),
    step(a1), step(a2), step(malformed), run-to-done} on one environment, then a
    probe episode whose full trace must be bit-identical to the trace of a freshly
    built, never-used identical environment.
(b) schedules: EVERY interleaving of the call scripts of two environments living
    in one process (shared contract clock deliberately not reset in between);
    each environment's trace must equal its run-alone trace."""
import itertools
from mcx.envh import *  # noqa
from mcx.enumr import shard
from mcx.common import Report, pmap
from tradingenv.contracts import ES, FutureChain
from tradingenv.state import State
from tradingenv.events import EventNewObservation
from tradingenv.policy import AbstractPolicy
from tradingenv.features import Feature
import gymnasium
from tradingenv.library import FeaturePrices, FeaturePortfolioWeight, FeatureSpread

LEVEL = "exploration"


def hx(x):
    try:
        return float(x).hex()
    except Exception:
        return repr(x)


def obs_repr(o):
    if isinstance(o, np.ndarray):
        return ("nd", o.shape, o.tobytes().hex())
    if isinstance(o, dict):
        return tuple(sorted((str(k), obs_repr(v)) for k, v in o.items()))
    if isinstance(o, (float, int, np.floating)):
        return hx(o)
    return type(o).__name__


class Sessions(Feature):
    """A user feature with per-episode state driven by the environment's own notifications: the number of new trading dates
    and of steps seen so far in the episode (a session counter)."""

    def __init__(self):
        super().__init__(space=gymnasium.spaces.Box(0.0, 1000.0, (2,), float), save=True)
        self.n_dates = 0
        self.n_steps = 0

    def process_EventNewDate(self, event):
        self.n_dates += 1

    def process_EventStep(self, event):
        self.n_steps += 1

    def parse(self):
        return np.array([float(self.n_dates), float(self.n_steps)])


# ---------------------------------------------------------------------------
# configurations (each call builds everything from scratch)

def _days(start, n, skip_weekend=True):
    out = []
    d = start
    while len(out) < n:
        if not skip_weekend or d.weekday() < 5:
            out.append(d)
        d += timedelta(days=1)
    return out


def make_env(name, shift=0):
    """shift moves the whole data set in time (for 'different dates' pairs)."""
    if name == "etf2":
        G = _days(datetime(2021, 3, 1) + timedelta(days=28 * shift), 6)
        cs = [ETF("A"), ETF("B")]
        tr = Transmitter(list(G), folds={"training-set": [G[0], G[-1]], "f2": [G[2], G[-1]]})
        tr.add_events(bar_events(G, cs, base=50.0, spread=1.0, step=3.0))
        feats = [FeaturePrices(cs), FeaturePortfolioWeight(cs, -1.0, 1.5), FeatureSpread(cs)]
        env = TradingEnv(BoxPortfolio(cs, -1.0, 1.5), state=feats, transmitter=tr, initial_cash=1000.0)
        actions = [np.array([0.5, 0.25]), np.array([-0.25, 1.0])]
        bad = np.array([9.0, 9.0])
    elif name == "warm":
        # a transmitter with a warm-up horizon of one timestep gap: a reset into the later fold replays the timestep before it
        G = _days(datetime(2021, 3, 1) + timedelta(days=28 * shift), 6)
        cs = [ETF("A"), ETF("B")]
        tr = Transmitter(list(G), folds={"training-set": [G[0], G[-1]], "f2": [G[2], G[-1]]}, warmup=G[1] - G[0])
        tr.add_events(bar_events(G, cs, base=50.0, spread=1.0, step=3.0))
        env = TradingEnv(BoxPortfolio(cs, -1.0, 1.5), state=[FeaturePrices(cs)], transmitter=tr, initial_cash=1000.0)
        actions = [np.array([0.5, 0.25]), np.array([-0.25, 1.0])]
        bad = np.array([9.0, 9.0])
    elif name in ("fitA", "fitB"):
        # library features whose default scaler is FITTED (fit_transformers=True) on the feature's own bounds; the two
        # configurations differ in those bounds
        G = _days(datetime(2021, 3, 1) + timedelta(days=28 * shift), 6)
        cs = [ETF("A"), ETF("B")]
        lo, hi = (-2.0, 2.5) if name == "fitA" else (-1.0, 2.0)
        tr = Transmitter(list(G), folds={"training-set": [G[0], G[-1]], "f2": [G[2], G[-1]]})
        tr.add_events(bar_events(G, cs, base=50.0, spread=1.0, step=3.0))
        feats = [FeaturePortfolioWeight(cs, lo, hi)]
        env = TradingEnv(BoxPortfolio(cs, 0.0, 1.0), state=feats, transmitter=tr, initial_cash=1000.0)
        for f in feats:
            f.fit_transformer()       # explicit fit of the default scaler on the feature's own bounds (deterministic)
        actions = [np.array([0.5, 0.25]), np.array([0.25, 1.0])]
        bad = np.array([9.0, 9.0])
    elif name == "holey":
        # timesteps 1 and 3 carry no event at all (a holiday inside the calendar); fold f2 starts after the first of them
        G = _days(datetime(2021, 3, 1) + timedelta(days=28 * shift), 7)
        cs = [ETF("A"), ETF("B")]
        tr = Transmitter(list(G), folds={"training-set": [G[0], G[-1]], "f2": [G[2], G[-1]]})
        tr.add_events([e for e in bar_events(G, cs, base=50.0, spread=1.0, step=3.0) if e.time not in (G[1], G[3])])
        env = TradingEnv(BoxPortfolio(cs, -1.0, 1.5), state=[FeaturePrices(cs), Sessions()], transmitter=tr, initial_cash=1000.0)
        actions = [np.array([0.5, 0.25]), np.array([-0.25, 1.0])]
        bad = np.array([9.0, 9.0])
    elif name == "fees":
        G = [datetime(2021, 3, 1, 10, 0) + timedelta(days=28 * shift, minutes=i) for i in range(6)]
        cs = [ETF("A"), UC("FUT", 2.0, 0.0, 0.25)]
        tr = Transmitter(list(G), folds={"training-set": [G[0], G[-1]], "f2": [G[1], G[-2]]})
        evs = bar_events(G, cs, base=50.0, spread=1.0, step=3.0)
        evs += [EventNBBO(G[i] + timedelta(seconds=s), cs[1], 70.0 + i, 72.0 + i) for i, s in ((1, 10), (2, 30), (3, 31))]
        tr.add_events(evs)
        env = TradingEnv(BoxPortfolio(cs, -1.0, 1.5), transmitter=tr, initial_cash=1000.0, latency=30, steps_delay=1,
                         broker_fees=BrokerFees(markup=0.01, proportional=1.0 / 64, fixed=0.5), reward="RewardLogReturn")
        actions = [np.array([0.5, 0.25]), np.array([-0.25, 1.0])]
        bad = np.array([0.5])
    elif name == "chain":
        # ES chain crossing the roll of ESH21 (last trading 2021-03-11, expiry 2021-03-19)
        year = 2021 + shift
        chain = FutureChain(ES, datetime(year, 1, 1), datetime(year, 12, 31))
        lead = chain.lead_contract(datetime(year, 3, 1))
        ltd = lead.last_trading_date
        G = _days(ltd - timedelta(days=3), 7)
        tr = Transmitter(list(G), folds={"training-set": [G[0], G[-1]], "f2": [G[1], G[-1]]})
        evs = []
        for i, g in enumerate(G):
            for j, c in enumerate(chain.contracts):
                if g < c.expiry:
                    evs.append(EventNBBO(g, c, 3000.0 + 10 * i + 25 * j, 3001.0 + 10 * i + 25 * j))
        tr.add_events(evs)
        env = TradingEnv(BoxPortfolio([chain], -2.0, 2.0), transmitter=tr, initial_cash=1e6,
                         state=[FeaturePrices([chain])])
        actions = [np.array([1.0]), np.array([-0.5])]
        bad = np.array([5.0])
    elif name == "window":
        G = _days(datetime(2021, 3, 1) + timedelta(days=28 * shift), 6)
        cs = [ETF("A")]
        tr = Transmitter(list(G), folds={"training-set": [G[0], G[-1]], "f2": [G[2], G[-1]]})
        tr.add_events(bar_events(G, cs, base=50.0, spread=0.0, step=3.0))
        tr.add_events([EventNewObservation(g, {"x": 0.1 * i, "y": -0.2 * i}) for i, g in enumerate(G)])
        env = TradingEnv(BoxPortfolio(cs, -1.0, 1.5), state=State(2, window=3, stride=2), transmitter=tr, initial_cash=1000.0)
        actions = [np.array([0.5]), np.array([-0.25])]
        bad = np.array([np.nan])
    elif name == "winmarkov":
        # a windowed State under markov reset (nothing is replayed at reset, the window starts padded); the two folds SHARE their
        # boundary timestep, so the event that ended an episode on the first fold is the first one of an episode on the second
        G = _days(datetime(2021, 3, 1) + timedelta(days=28 * shift), 7)
        cs = [ETF("A")]
        tr = Transmitter(list(G), folds={"training-set": [G[0], G[3]], "f2": [G[3], G[-1]]}, markov_reset=True)
        tr.add_events(bar_events(G, cs, base=50.0, spread=0.0, step=3.0))
        tr.add_events([EventNewObservation(g, {"x": 0.1 * i, "y": -0.2 * i}) for i, g in enumerate(G)])
        env = TradingEnv(BoxPortfolio(cs, -1.0, 1.5), state=State(2, window=3), transmitter=tr, initial_cash=1000.0)
        actions = [np.array([0.5]), np.array([-0.25])]
        bad = np.array([np.nan])
    elif name == "defaults":
        # the convenience entry point: a price table, a plain list of contracts, every other option left at its default
        # (the default state / reward / fee objects of the signature are then shared by all environments built this way)
        import pandas as pd
        G = _days(datetime(2021, 3, 1) + timedelta(days=28 * shift), 6)
        cs = [ETF("A"), ETF("B")]
        px = pd.DataFrame({cs[0]: [50.0 + 3 * i + shift for i in range(6)], cs[1]: [80.0 - 2 * i - shift for i in range(6)]}, index=pd.DatetimeIndex(G))
        env = TradingEnv(cs, prices=px)
        env.mcx_folds = ("training-set",)
        actions = [np.array([0.5, 0.25]), np.array([0.25, 0.75])]
        bad = np.array([9.0, 9.0])
    elif name == "disc":
        G = _days(datetime(2021, 3, 1) + timedelta(days=28 * shift), 6)
        cs = [ETF("A"), ETF("B")]
        tr = Transmitter(list(G), folds={"training-set": [G[0], G[-1]], "f2": [G[2], G[-1]]})
        tr.add_events(bar_events(G, cs, base=50.0, spread=1.0, step=3.0))
        env = TradingEnv(DiscretePortfolio(cs, [[0, 0], [0.5, 0.5], [1.0, -0.5]]), transmitter=tr, initial_cash=1000.0,
                         steps_delay=2, state=[FeaturePortfolioWeight(cs, -1.0, 1.5)])
        actions = [1, 2]
        bad = 7
    else:
        raise KeyError(name)
    return env, actions, bad


def snapshot(env):
    b = env.broker
    hq = tuple(sorted((str(k), hx(v)) for k, v in b.holdings_quantity.items()))
    hm = tuple(sorted((str(k), hx(v)) for k, v in b.holdings_margins.items()))
    try:
        nlv = hx(b.net_liquidation_value(False))
    except Exception as ex:
        nlv = "exc:" + type(ex).__name__
    return hq, hm, nlv, str(env.now())


def track(env):
    tr = env.broker.track_record
    out = []
    for j in range(len(tr)):
        rb = tr[j]
        out.append((str(rb.time), hx(rb.profit_on_idle_cash), hx(rb.context_pre.nlv), hx(rb.context_post.nlv),
                    tuple((str(t.contract), hx(t.quantity), hx(t.bid_price), hx(t.ask_price), hx(t.cost_of_commissions)) for t in rb.trades),
                    tuple(sorted((str(k), hx(v)) for k, v in rb.allocation.items()))))
    return tuple(out)


def do_call(env, call, actions, bad):
    """Execute one call; returns its observable result (exceptions are results)."""
    kind = call[0]
    try:
        if kind == "reset":
            o = env.reset(fold=call[1])
            return ("reset", obs_repr(o), snapshot(env))
        if kind == "resetn":
            # a sampled episode window of call[2] steps; the start is the choice call[3] of the numpy.random.choice seam
            with ChoiceSeam(call[3]):
                o = env.reset(fold=call[1], episode_length=call[2])
            return ("resetn", obs_repr(o), snapshot(env))
        if kind == "step":
            a = bad if call[1] == "bad" else actions[call[1]]
            o, r, d, info = env.step(a)
            return ("step", obs_repr(o), hx(r), bool(d), snapshot(env))
        if kind == "finish":
            k = 0
            while not env._done and k < 50:
                env.step(actions[k % 2])
                k += 1
            return ("finish", k, snapshot(env))
    except Exception as ex:
        return ("exc", kind, type(ex).__name__)
    raise KeyError(call)


class FixedPolicy(AbstractPolicy):
    """Stateless policy: always the same action (so `backtest` must equal reset + a loop of identical steps)."""

    def __init__(self, action):
        self.action = action

    def act(self, state=None):
        return np.array(self.action, copy=True) if isinstance(self.action, np.ndarray) else self.action


def backtest_pair(env, actions, fold):
    """(track record of env.backtest(policy), track record of reset + manual loop with the same constant action)."""
    if fold not in getattr(env, 'mcx_folds', ('training-set', 'f2')):
        return ("nofold",), ("nofold",)
    try:
        env.backtest(fold=fold, policy=FixedPolicy(actions[1]))
        a = track(env)
    except Exception as ex:
        a = ("exc", type(ex).__name__, str(ex)[:80])
    try:
        env.reset(fold=fold)
        k = 0
        while env._done is False and k < 50:
            env.step(np.array(actions[1], copy=True) if isinstance(actions[1], np.ndarray) else actions[1])
            k += 1
        b = track(env)
    except Exception as ex:
        b = ("exc", type(ex).__name__, str(ex)[:80])
    return a, b


def probe_episode(env, actions, bad, fold="training-set"):
    """The probe: a complete episode whose full trace is compared."""
    if fold not in getattr(env, 'mcx_folds', ('training-set', 'f2')):
        fold = "training-set"
    out = [do_call(env, ("reset", fold), actions, bad)]
    k = 0
    while env._done is False and k < 50:
        out.append(do_call(env, ("step", k % 2), actions, bad))
        if out[-1][0] == "exc":
            break
        k += 1
    out.append(track(env))
    feats = env.state.features or []
    out.append(tuple((f.name, tuple((str(t), obs_repr(v)) for t, v in f.history.items())) for f in feats))
    if isinstance(env.state, State):
        out.append(tuple((str(t), obs_repr(v)) for t, v in env.state.history.items()))
    out.append(backtest_pair(env, actions, fold))
    return tuple(out)


CALLS = [("reset", "training-set"), ("reset", "f2"), ("step", 0), ("step", 1), ("step", "bad"), ("finish",),
         ("resetn", "training-set", 3, 1), ("resetn", "f2", 2, 0)]


def _seq_work(unit):
    name, histories = unit
    try:
        return _seq_work_inner(unit)
    except Exception as ex:
        from mcx.common import impl_raised
        if not impl_raised(ex):
            raise
        return {"evaluations": 1, "outcomes": set(), "nontrivial": 0,
                "violations": [({"part": "sequential", "config": name, "history": list(histories[0]) if histories else [], "fold": "training-set"},
                                "config %s: building or probing the environment raised %r" % (name, ex), ("seq-exc", name, 0))]}


def _seq_work_inner(unit):
    name, histories = unit
    out = {"evaluations": 0, "violations": [], "outcomes": set(), "nontrivial": 0}
    reset_clock()
    env0, actions, bad = make_env(name)
    fresh = {f: None for f in ("training-set", "f2")}
    for f in fresh:
        reset_clock()
        e, a, b_ = make_env(name)
        fresh[f] = probe_episode(e, a, b_, f)
    for hist in histories:
        reset_clock()
        env, actions, bad = make_env(name)
        results = [do_call(env, CALLS[i], actions, bad) for i in hist]
        for f in ("training-set", "f2"):
            if f == "f2" and len(hist) % 2 == 0:
                continue   # alternate the probed fold to halve the cost
            got = probe_episode(env, actions, bad, f)
            out["evaluations"] += 1
            out["outcomes"].add(hash(got))
            if any(r[0] != "exc" for r in results) and len(hist) > 0:
                out["nontrivial"] += 1
            bt, manual = got[-1]
            if bt != manual:
                out["violations"].append(({"part": "sequential", "config": name, "history": list(hist), "fold": f},
                                          "config %s: after call history %s env.backtest(fixed policy) on fold %s records something else than reset + the same steps made by hand: %s"
                                          % (name, [CALLS[i] for i in hist], f, first_diff(bt, manual)), ("seq-bt", name, len(hist))))
            if got != fresh[f]:
                diff = first_diff(got, fresh[f])
                out["violations"].append(({"part": "sequential", "config": name, "history": list(hist), "fold": f},
                                          "config %s: after call history %s the probe episode on fold %s differs from a fresh environment: %s"
                                          % (name, [CALLS[i] for i in hist], f, diff), ("seq", name, len(hist))))
    return out


def first_diff(a, b):
    if type(a) != type(b):
        return "%r vs %r" % (a, b)
    if isinstance(a, tuple):
        if len(a) != len(b):
            return "length %d vs %d: %s" % (len(a), len(b), str((a, b))[:300])
        for i, (x, y) in enumerate(zip(a, b)):
            if x != y:
                return "[%d] %s" % (i, first_diff(x, y))
        return "equal"
    return "%r vs %r" % (a, b) if a != b else "equal"


# ---------------------------------------------------------------------------
# schedules

PAIRS = [("etf2", 0, "etf2", 0), ("etf2", 0, "fees", 1), ("chain", 0, "chain", 1), ("chain", 0, "chain", 0),
         ("chain", 0, "etf2", 0), ("window", 0, "disc", 1), ("chain", 1, "fees", 0),
         ("fitA", 0, "fitB", 1), ("fitB", 0, "fitA", 0), ("defaults", 0, "defaults", 1), ("defaults", 0, "etf2", 1)]
SCRIPT = [("reset", "training-set"), ("step", 0), ("step", 1), ("step", 0), ("step", 1)]


def run_alone(name, shift, script):
    reset_clock()
    env, actions, bad = make_env(name, shift)
    res = [do_call(env, c, actions, bad) for c in script]
    return tuple(res) + (track(env),)


def run_schedule(pair, sched, script):
    """sched: tuple of 0/1 telling which environment makes its next call."""
    n1, s1, n2, s2 = pair
    reset_clock()
    e1, a1, b1 = make_env(n1, s1)
    e2, a2, b2 = make_env(n2, s2)
    res = ([], [])
    idx = [0, 0]
    for who in sched:
        env, actions, bad = (e1, a1, b1) if who == 0 else (e2, a2, b2)
        res[who].append(do_call(env, script[idx[who]], actions, bad))
        idx[who] += 1
    return tuple(res[0]) + (track(e1),), tuple(res[1]) + (track(e2),)


def _sched_work(unit):
    pair, scheds, script = unit
    try:
        return _sched_work_inner(unit)
    except Exception as ex:
        from mcx.common import impl_raised
        if not impl_raised(ex):
            raise
        return {"evaluations": 1, "outcomes": set(), "nontrivial": 0,
                "violations": [({"part": "schedule", "pair": list(pair), "schedule": list(scheds[0]), "script_len": len(script)},
                                "pair %s: building or running the environments raised %r" % (pair, ex), ("sched-exc", pair[0], pair[2], 0))]}


def _sched_work_inner(unit):
    pair, scheds, script = unit
    out = {"evaluations": 0, "violations": [], "outcomes": set(), "nontrivial": 0}
    alone1 = run_alone(pair[0], pair[1], script)
    alone2 = run_alone(pair[2], pair[3], script)
    for sched in scheds:
        got1, got2 = run_schedule(pair, sched, script)
        out["evaluations"] += 1
        out["outcomes"].add(hash((pair, got1, got2)))
        switches = sum(1 for a, b in zip(sched, sched[1:]) if a != b)
        if switches >= 2:
            out["nontrivial"] += 1
        for which, got, alone in ((0, got1, alone1), (1, got2, alone2)):
            if got != alone:
                out["violations"].append(({"part": "schedule", "pair": list(pair), "schedule": list(sched), "script_len": len(script)},
                                          "pair %s, schedule %s: environment #%d differs from its run-alone trace: %s"
                                          % (pair, "".join(map(str, sched)), which, first_diff(got, alone)),
                                          ("sched", pair[0], pair[2], switches)))
                break
    return out


def all_schedules(n):
    for ones in itertools.combinations(range(2 * n), n):
        s = [0] * (2 * n)
        for i in ones:
            s[i] = 1
        yield tuple(s)


def run(tier, **kw):
    rep = Report("C10", tier, LEVEL)
    depth = 3 if tier == "quick" else 5
    configs = ["etf2", "fees", "chain", "window", "disc", "holey", "defaults", "warm", "winmarkov"]
    hists = [h for d in range(depth + 1) for h in itertools.product(range(len(CALLS)), repeat=d)]
    units = []
    for name in configs:
        for ch in shard(hists, 8 if tier == "quick" else 48):
            units.append((name, ch))
    outcomes = set()
    nseq = 0
    for r in pmap(_seq_work, units):
        rep.add("evaluations", r["evaluations"])
        rep.add("distinct_nontrivial", r["nontrivial"])
        nseq += r["evaluations"]
        outcomes |= r["outcomes"]
        for case, msg, group in r["violations"]:
            rep.violation(case, msg, group=group)
    rep.set("sequential_probe_episodes", nseq)
    rep.set("sequential_distinct_probe_traces", len(outcomes))
    rep.set("sequential_depth", depth)
    # schedules
    script = SCRIPT if tier == "thorough" else SCRIPT[:4]
    scheds = list(all_schedules(len(script)))
    sunits = []
    for pair in PAIRS:
        for ch in shard(scheds, 4 if tier == "quick" else 8):
            sunits.append((pair, ch, script))
    souts = set()
    nsch = 0
    for r in pmap(_sched_work, sunits):
        rep.add("evaluations", r["evaluations"])
        rep.add("distinct_nontrivial", r["nontrivial"])
        nsch += r["evaluations"]
        souts |= r["outcomes"]
        for case, msg, group in r["violations"]:
            rep.violation(case, msg, group=group)
    rep.set("schedules_executed", nsch)
    rep.set("schedules_per_pair", len(scheds))
    rep.set("schedule_distinct_outcomes", len(souts))
    rep.set("schedule_pairs", [list(p) for p in PAIRS])
    rep.set("exhaustive", True)
    rep.set("rule", "sequential: every call history of length <= depth over 8 calls (reset fold 1/2, step a1/a2, malformed step, run to done, reset with a sampled 3-step / 2-step episode window) for 7 "
                    "configurations (2 ETFs with library features; the same on a grid with two event-less timesteps; ETF+margined with fees, latency and delay; ES chain across a roll; windowed State; "
                    "discrete space with delay 2; a price table + contract list with every option at its default), followed by a probe episode compared bit-for-bit (float.hex / array bytes) with a fresh environment, and env.backtest(constant policy) compared with reset + the same steps by hand; "
                    "non-trivial = history with at least one successful call. schedules: ALL C(2n,n) interleavings of two n-call scripts for 11 pairs "
                    "of environments (incl. two chain environments at different dates), each compared with its run-alone trace; non-trivial = schedule with >= 2 switches")
    rep.set("samples", [{"part": "sequential", "config": "chain", "history": [0, 2, 4, 1]},
                        {"part": "schedule", "pair": ["chain", 0, "chain", 1], "schedule": [0, 1, 0, 1, 1, 0, 0, 1]}])
    rep.assumptions = ["environments are constructed before the first interleaved call (contract clock at its import-time value)",
                       "the episode window is part of the configuration: no random episode start in these configurations",
                       "decided for the library's own features/State and one session-counting feature driven by new-date / step notifications; other user-written features are outside any bounded check"]
    return rep.finish(replay)


def replay(case, **kw):
    if case["part"] == "sequential":
        r = _seq_work((case["config"], [tuple(case["history"])]))
    else:
        script = SCRIPT[:case["script_len"]]
        r = _sched_work((tuple(case["pair"]), [tuple(case["schedule"])], script))
    return [m for _, m, _ in r["violations"]]


def probe():
    reset_clock()
    env, actions, bad = make_env("chain")
    return repr(hash(probe_episode(env, actions, bad))) + repr(run_alone("fees", 0, SCRIPT)[-1])[:2000]

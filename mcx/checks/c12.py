"""C12 trade filtering: threshold, liquidations, whole lots.

Bounded-exhaustive: every broker state reached by the ledger search (depth <= k)
x target menu x threshold menu (with exact at/below/above-threshold cases on
power-of-two palettes) x {weights, nr-contracts} x {fractional, whole-lot};
Rebalancing.make_trades (and the executed Broker.rebalance) compared with
R-FILTER."""
from mcx import ledger
from mcx.ledger import *  # noqa
from mcx.ref import rebal
from mcx.common import Report, pmap, seed

LEVEL = "exploration"

POW2_QUOTES = [(64.0, 64.0), (128.0, 128.0), (64.0, 128.0), (32.0, 32.0)]
W_TARGETS = [(0.5, 0.5), (1.0, 0.0), (0.0, 0.0), (-0.5, 0.75), (1.5, -0.5), (0.25, 0.0), (0.0, -1.0), (0.0, 0.03125)]
N_TARGETS = [(2.0, -1.0), (0.0, 3.0), (0.0, 0.0), (1.0, 1.0)]
LOT_DELTAS = [-1.5, -1.0, -0.5, -2.0 ** -10, 2.0 ** -10, 0.5, 1.0, 1.5, 2.75, 2.0 ** -30, -2.0 ** -30]
EPS = 2.0 ** -20


def sources(tier):
    """(universe, fee, quotes, deposit, depth, exact_palette)"""
    scale, deposit = ledger.palette()
    out = [
        ("spot1+fut", ledger.FEES[1], ledger.quotes_of(scale), deposit, 2, False),
        ("spot4+fut", (0.0, 0.0), POW2_QUOTES, 65536.0, 2, True),
        ("fut+fut", (0.0, 0.0), POW2_QUOTES, 65536.0, 2, True),
        # fractional holdings (reached through weight rebalances): whole-lot truncation must apply to the imbalance
        ("spot1+fut", (0.0, 0.0), ledger.quotes_of(scale)[:3], deposit, 2, False, True),
        # an account that is tiny relative to the size of one contract (deposit x 2^-26, one ES-like contract worth millions of
        # times the account): economically meaningful imbalances are then far below 1e-7 contracts
        ("etf+es", (0.0, 0.0), ledger.quotes_of(scale)[:3], deposit * 2.0 ** -26, 2, False, True, True),
    ]
    if tier == "thorough":
        out = [
            ("spot1+fut", ledger.FEES[1], ledger.quotes_of(scale), deposit, 3, False),
            ("etf+es", ledger.FEES[5], ledger.quotes_of(scale), deposit, 3, False),
            ("halfmult", ledger.FEES[4], ledger.quotes_of(scale), deposit, 3, False),
            ("spot4+fut", (0.0, 0.0), POW2_QUOTES, 65536.0, 3, True),
            ("fut+fut", (0.0, 0.0), POW2_QUOTES, 65536.0, 3, True),
            ("spot+spot", (0.0, 0.0), POW2_QUOTES, 131072.0, 3, True),
            ("spot1+fut", (0.0, 0.0), ledger.quotes_of(scale)[:3], deposit, 3, False, True),
            ("fut+fut", ledger.FEES[1], ledger.quotes_of(scale)[:3], deposit, 2, False, True),
            ("etf+es", (0.0, 0.0), ledger.quotes_of(scale)[:3], deposit * 2.0 ** -26, 3, False, True, True),
            ("spot1+fut", (0.0, 0.0), ledger.quotes_of(scale)[:3], deposit * 2.0 ** -26, 2, False, True, True),
        ]
    return out


class ImplView:
    """The account as the implementation itself reports it (holdings and NLV), offered through the ledger's interface.  Used for
    the tiny-account source: there the broker snaps positions below its 1e-7-contract resolution to zero (documented in
    Broker.transact), which the exact ledger does not model; the emission rule is judged on the holdings the account REPORTS."""

    def __init__(self, sb):
        self.b = unsnap(sb)
        self.v = Fr(float(self.b.net_liquidation_value(False)))
        self.h = {c: Fr(float(q)) for c, q in self.b.holdings_quantity.items()}

    def qty(self, c):
        return self.h.get(c, Fr(0))

    def nlv(self, exchange, cs):
        return self.v


def _collect(src):
    universe, fee, quotes, deposit, depth, exact = src[:6]
    frac = len(src) > 6 and src[6]
    ops = ledger.alphabet(with_rebalance=frac, nquotes=len(quotes), marks=False)
    states, r = ledger.collect_states(universe, fee, depth, quotes, deposit, ops)
    return src, [(sb, ref, hist) for sb, ref, hist in states], r["transitions"]


def probe_menu(ref, ex, cs, nlv, exact_palette):
    """Yield (measure, alloc, threshold, fractional) for one state."""
    menu = []
    held = [ref.qty(c) for c in cs]
    allocs = [("weight", a) for a in W_TARGETS] + [("nr-contracts", a) for a in N_TARGETS]
    for d in LOT_DELTAS:
        allocs.append(("nr-contracts", (float(held[0]) + d, float(held[1]))))
        allocs.append(("nr-contracts", (float(held[0]), float(held[1]) - d)))
    for measure, alloc in allocs:
        table = rebal.imbalance_table(ref, ex, cs, measure, alloc, nlv)
        ths = {0.0}
        for sym, row in table.items():
            aw = abs(row["w"])
            if aw == 0:
                continue
            f = float(aw)
            ths.add(f / 2)
            ths.add(f * 2)
            if exact_palette and state_is_exact(row, nlv, ex):
                if Fr(f) == aw:
                    ths.add(f)
                    ths.add(f - EPS)
                    ths.add(f + EPS)
        for th in sorted(ths):
            if th < 0:
                continue
            menu.append((measure, alloc, th, True))
            menu.append((measure, alloc, th, False))
    return menu


def state_is_exact(row, nlv, ex):
    c = row["contract"]
    book = ex[c]
    return (rebal.is_pow2(nlv) and rebal.is_pow2(book.bid_price) and rebal.is_pow2(book.ask_price)
            and rebal.is_pow2(c.multiplier) and rebal.is_small_dyadic(row["imb"])
            and rebal.is_small_dyadic(row["held"]))


def check_probe(sb, ref, cs, measure, alloc, th, fractional, exact_palette, executed):
    """Run one probe on a fresh copy of the state; returns list of messages."""
    b = unsnap(sb)
    nlv = ref.nlv(b.exchange, cs)
    table = rebal.imbalance_table(ref, b.exchange, cs, measure, alloc, nlv)
    rb = Rebalancing(contracts=list(cs), allocation=list(alloc), measure=measure, margin=th,
                     fractional=fractional, time=(b._last_accrual or T0) + timedelta(days=1))
    msgs = []
    try:
        if executed:
            b.rebalance(rb)
            trades = rb.trades
        else:
            trades = rb.make_trades(b)
    except EndOfEpisodeError:
        if executed:
            # the requested trades themselves ruin the account (e.g. shorting 100% of NLV across a
            # 64/128 spread): insolvency is C09's subject, the emission rule was checked by make_trades
            return [], 0
        return ["make_trades raised EndOfEpisodeError"], 0
    except Exception as ex:
        return ["%s raised %r" % ("Broker.rebalance" if executed else "make_trades", ex)], 0
    got = {}
    for tr in trades:
        sym = tr.contract.symbol
        if isinstance(tr.contract, Cash):
            msgs.append("cash was traded")
        if sym in got:
            msgs.append("two trades for %s" % sym)
        got[sym] = tr.quantity
        if tr.quantity == 0 or tr.quantity != tr.quantity:
            msgs.append("zero/NaN-sized trade for %s" % sym)
        if not fractional and float(tr.quantity) != int(tr.quantity):
            msgs.append("whole-lot trade for %s has non-integer quantity %r" % (sym, tr.quantity))
        if sym not in table:
            msgs.append("trade for unknown contract %s" % sym)
    nontrivial = 0
    for sym, row in table.items():
        exact = exact_palette and state_is_exact(row, nlv, b.exchange)
        acc = rebal.acceptable(row, th, fractional, exact)
        if len(acc) == 1 and None not in acc:
            nontrivial += 1
        g = got.get(sym)
        if g is not None and not exact and abs(float(g)) <= 1e-9 * max(1.0, abs(float(row["held"])), abs(float(row["target"]))):
            # float noise around an imbalance that is exactly zero in rational arithmetic (e.g. re-targeting the weight a
            # position was opened with): a dust trade of 1e-14 lots and no trade are the same outcome
            g = None
            acc = set(acc) | ({None} if abs(float(row["imb"])) <= 1e-9 * max(1.0, abs(float(row["held"]))) else set())
        if not rebal.qty_matches(g, acc):
            msgs.append("contract %s: emitted %r, acceptable %s (imbalance %r lots, imbalance weight %r, threshold %r, "
                        "held %r, targeted %s, %s)" % (
                            sym, got.get(sym), sorted((("none" if a is None else float(a)) for a in acc), key=str),
                            float(row["imb"]), float(row["w"]), th, float(row["held"]), row["targeted"],
                            "fractional" if fractional else "whole-lot"))
    return msgs, nontrivial


def _work(unit):
    src, chunk = unit
    universe, fee, quotes, deposit, depth, exact_palette = src[:6]
    cs = ledger.contracts_of(universe)
    reset_clock()
    out = {"evaluations": 0, "violations": [], "nontrivial": set(), "outcomes": set(), "boundary_cases": 0}
    view = len(src) > 7 and src[7]
    for sb, ref, hist in chunk:
        b = unsnap(sb)
        if view:
            ref = ImplView(sb)
        nlv = ref.nlv(b.exchange, cs)
        if nlv is None or nlv <= 0:
            continue
        for measure, alloc, th, fractional in probe_menu(ref, b.exchange, cs, nlv, exact_palette):
            for executed in ((False, True) if th == 0.0 or fractional is False else (False,)):
                msgs, nt = check_probe(sb, ref, cs, measure, alloc, th, fractional, exact_palette, executed)
                out["evaluations"] += 1
                if exact_palette and th > 0:
                    tb = rebal.imbalance_table(ref, b.exchange, cs, measure, alloc, nlv)
                    if any(abs(r_["w"]) == Fr(th) and state_is_exact(r_, nlv, b.exchange) for r_ in tb.values()):
                        out["boundary_cases"] += 1
                key = (universe, hist, measure, alloc, th, fractional)
                if nt:
                    out["nontrivial"].add(hash(key))
                if msgs:
                    case = {"universe": universe, "fee": list(fee), "quotes": [list(q) for q in quotes], "deposit": deposit,
                            "history": [list(o) for o in hist], "measure": measure, "alloc": list(alloc), "threshold": th,
                            "fractional": fractional, "executed": executed, "exact_palette": exact_palette, "impl_view": bool(view)}
                    out["violations"].append((case, "; ".join(msgs), (msgs[0].split(" ")[0], fractional, len(hist))))
    return out


CHAIN_PROBES = [(0.0, 0.5), (0.26, 0.5), (0.9, 0.5), (0.26, 0.05), (0.4, 0.05), (0.0, 0.05), (-0.26, 0.5), (-0.9, 0.5)]   # (target weight, threshold)


def chain_case(case, a, thr):
    """Threshold rule for a request on a futures chain: the contract the chain denotes now is traded iff its imbalance weight
    reaches the threshold; a contract of the chain that is held but is not the denoted one is absent from the target and liquidated."""
    from mcx import chainreq as CR
    b, chain, cs, now, px = CR.setup(case)
    R = CR.ref_lead(cs, now, case[0])
    nlv = float(b.net_liquidation_value(False))
    h = CR.held(b, cs)
    rb = Rebalancing(contracts=[chain], allocation=[a], measure="weight", time=now, margin=thr)
    try:
        trades = rb.make_trades(b)
    except Exception as ex:
        reset_clock()
        return ["make_trades of a chain request raised %r" % (ex,)], False
    reset_clock()
    got = {t.contract.symbol: float(t.quantity) for t in trades}
    msgs = []
    decided = False
    for c in cs:
        q = h.get(c.symbol, 0.0)
        if c is not R:
            if q != 0:
                decided = True
                if abs(got.get(c.symbol, 0.0) + q) > 1e-9 * max(1.0, abs(q)):
                    msgs.append("%s is held (%r) and is not the contract the chain denotes (%s): it must be liquidated whatever the threshold %r, emitted %r"
                                % (c.symbol, q, R.symbol, thr, got.get(c.symbol)))
            elif c.symbol in got:
                msgs.append("trade emitted in %s, which is neither held nor denoted by the chain" % c.symbol)
            continue
        bid, ask = px[c.symbol]
        held_w = q * c.multiplier * (bid if q > 0 else ask) / nlv
        imb = a - held_w
        if a == 0:
            want = q != 0           # liquidation of the denoted contract itself
        elif abs(abs(imb) - thr) < 0.02:
            continue                # too close to the threshold for this coarse probe (price side conventions)
        else:
            want = abs(imb) >= thr
        decided = True
        if want != (c.symbol in got):
            msgs.append("denoted contract %s: imbalance weight %r, threshold %r, %s" % (c.symbol, imb, thr, "no trade emitted" if want else "trade emitted: %r" % got.get(c.symbol)))
    return msgs, decided


def chain_part(rep):
    from mcx import chainreq as CR
    n = 0
    for case in CR.cases():
        for a, thr in CHAIN_PROBES:
            msgs, decided = chain_case(case, a, thr)
            n += 1
            if msgs:
                rep.violation({"part": "chain", "case": list(case), "alloc": a, "threshold": thr},
                              "chain request %s target %r threshold %r: %s" % (case, a, thr, "; ".join(msgs[:2])), group=("chain", msgs[0].split(" ")[0], case[0]))
    rep.add("evaluations", n)
    rep.set("chain_requests", n)


def space_case(si, probe_i):
    """The threshold configured on an action space applies to the requests it builds, whatever the measure: holding 1024 A
    (12.5% of the account) and nothing of B, a small change of A is skipped, a large one and the opening of B are traded."""
    from mcx import spacereq as SR
    thr = 0.03125
    name, space, measure, frac = SR.spaces(thr)[si]
    b = SR.broker({"A": 1024.0})
    nlv = float(b.net_liquidation_value(False))
    # (new quantity of A, new quantity of B) -> which contracts must be traded
    qa, qb, want = [(1040.0, 0.0, set()), (2048.0, 0.0, {"A"}), (1040.0, 2048.0, {"B"}), (0.0, 64.0, {"A"}), (1024.0, 0.0, set())][probe_i]
    if measure == "weight":
        action = np.array([qa * 128.0 / nlv, qb * 64.0 / nlv])
    else:
        action = np.array([qa, qb])
    try:
        trades = SR.request(space, action, b).make_trades(b)
    except Exception as ex:
        return ["%s: request/make_trades raised %r" % (name, ex)]
    got = {t.contract.symbol for t in trades}
    if got != want:
        return ["%s, holding 1024 A (weight 0.125), target quantities A %r / B %r (imbalance weights %r / %r): traded %s, the threshold rule requires %s"
                % (name, qa, qb, (qa - 1024.0) * 128.0 / nlv, qb * 64.0 / nlv, sorted(got), sorted(want))]
    return []


def space_part(rep):
    from mcx import spacereq as SR
    n = 0
    for si in range(len(SR.spaces(0.03125))):
        for pi in range(5):
            msgs = space_case(si, pi)
            n += 1
            if msgs:
                rep.violation({"part": "space", "space": si, "probe": pi}, msgs[0], group=("space", si))
    rep.add("evaluations", n)
    rep.set("requests_built_by_action_spaces", n)


def run(tier, **kw):
    rep = Report("C12", tier, LEVEL)
    srcs = sources(tier)
    units = []
    nstates = 0
    for src, states, trans in pmap(_collect, srcs):
        nstates += len(states)
        n = 24
        for i in range(n):
            units.append((src, states[i::n]))
    nt = set()
    for r in pmap(_work, units):
        rep.add("evaluations", r["evaluations"])
        rep.add("probes_with_threshold_exactly_equal_to_an_imbalance_weight", r["boundary_cases"])
        nt |= r["nontrivial"]
        for case, msg, group in r["violations"]:
            rep.violation(case, msg, group=group)
    chain_part(rep)
    space_part(rep)
    rep.set("start_states", nstates)
    rep.set("distinct_nontrivial", len(nt))
    rep.set("rule", "one evaluation = one make_trades/rebalance call on a fresh copy of a reachable broker state for one "
                    "(measure, target, threshold, lot mode); enumerated: every state of the ledger BFS (depth bound per source) x "
                    "%d weight targets + %d contract targets + %d sub/super-lot targets x thresholds {0, |w|/2, 2|w|} and, on "
                    "power-of-two palettes, {|w|-2^-20, |w| exactly, |w|+2^-20} per contract; non-trivial = distinct probe in which at "
                    "least one contract has exactly one acceptable outcome that is a trade" % (len(W_TARGETS), len(N_TARGETS), 2 * len(LOT_DELTAS)))
    rep.set("exhaustive", True)
    rep.set("sources", [{"universe": s[0], "fee": s[1], "depth": s[4], "exact_palette": s[5], "fractional_holdings": len(s) > 6} for s in srcs])
    rep.set("samples", [
        {"universe": "spot4+fut", "history": [["t", 1, 2.0]], "measure": "nr-contracts", "alloc": [0.0, 2.5], "threshold": 0.0,
         "fractional": False, "expect": "imbalance 0.5 lot -> skipped, no exception"},
        {"universe": "fut+fut", "history": [], "measure": "nr-contracts", "alloc": [2.0, -1.0], "threshold": 2.0 ** -7,
         "fractional": True, "expect": "imbalance weight exactly at the threshold -> traded"},
    ])
    rep.assumptions = [
        "NLV > 0 in every start state; quotes present for every contract (missing quotes are C13)",
        "whole-lot mode: the threshold is a condition on the imbalance itself (before truncation), as the statement words it; the traded quantity is its truncation",
        "inexact palettes: a threshold within 1e-9 of the imbalance weight accepts both outcomes; exact at/just-below/just-above cases only on power-of-two palettes where every float operation is exact in any evaluation order",
    ]
    return rep.finish(replay)


def replay(case, **kw):
    if case.get("part") == "chain":
        return chain_case(tuple(case["case"]), case["alloc"], case["threshold"])[0]
    if case.get("part") == "space":
        return space_case(case["space"], case["probe"])
    reset_clock()
    universe, fee = case["universe"], tuple(case["fee"])
    quotes = [tuple(q) for q in case["quotes"]]
    b, ref, cs = ledger.initial(universe, fee, quotes, case["deposit"])
    for op in case["history"]:
        ref, _ = ledger.apply_op(b, ref, cs, tuple(op), quotes, fee)
    if case.get("impl_view"):
        ref = ImplView(snap(b))
    msgs, _ = check_probe(snap(b), ref, cs, case["measure"], tuple(case["alloc"]), case["threshold"],
                          case["fractional"], case["exact_palette"], case["executed"])
    return msgs


def probe():
    reset_clock()
    b, ref, cs = ledger.initial("fut+fut", (0.0, 0.0), POW2_QUOTES, 65536.0)
    ref, _ = ledger.apply_op(b, ref, cs, ("t", 0, 2.0), POW2_QUOTES, (0.0, 0.0))
    rb = Rebalancing(contracts=list(cs), allocation=[0.5, -0.25], measure="weight", time=T0 + timedelta(days=1))
    return repr([(t.contract.symbol, float(t.quantity).hex()) for t in rb.make_trades(b)])

"""C05, second exploration: brokers built with a NON-default `epsilon` (the size below which a residual position is
snapped to zero, a documented constructor option).  The exact ledger of the main search cannot follow a snapped
residual (the snap destroys a fraction of a lot by design), so the oracle here is C05's own invariant evaluated on the
implementation's own positions: margin = requirement x multiplier x |position| x liquidation price for every margined
contract (zero when flat), and cash + margins + fully-paid liquidation values = NLV - right after each trade for the
traded contract, and after a valuation for all of them."""
from collections import deque
from mcx import ledger
from mcx.harness import *  # noqa
from mcx.common import pmap

EPS = 2.0 ** -6
BIG = 1.0 - 2.0 ** -7          # selling this much of one lot leaves 2^-7 < EPS: snapped to a flat position
QUOTES = [(100.0, 100.0), (100.0, 104.0), (92.0, 96.0)]
SIZES = [1.0, -1.0, BIG, -BIG]


def alphabet(n):
    ops = []
    for c in range(n):
        for k in range(len(QUOTES)):
            ops.append(("q", c, k))
    for c in range(n):
        for dq in SIZES:
            ops.append(("t", c, dq))
    ops.append(("v",))
    return ops


def initial(universe, deposit):
    cs = ledger.contracts_of(universe)
    ex = make_exchange(cs, QUOTES[0], 0.0)
    b = Broker(ex, deposit=deposit, fees=BrokerFees(markup=0.0, interest_rate=RATE, proportional=0.0, fixed=0.0), epsilon=EPS)
    return b, cs


def want_margin(b, c):
    q = float(b._holdings_quantity.get(c, 0.0))
    if q == 0 or c.margin_requirement == 0:
        return 0.0
    return c.margin_requirement * c.multiplier * abs(q) * liq_side(b.exchange[c], q)


def apply(b, cs, op):
    msgs = []
    if op[0] == "q":
        bid, ask = QUOTES[op[2]]
        b.exchange.process_EventNBBO(EventNBBO(T0, cs[op[1]], bid, ask))
    elif op[0] == "t":
        c = cs[op[1]]
        book = b.exchange[c]
        b.transact(Trade(T0, c, op[2], book.bid_price, book.ask_price, b.fees))
        got, want = float(b._holdings_margins.get(c, 0.0)), want_margin(b, c)
        if abs(got - want) > 1e-9 * max(1.0, abs(want)):
            msgs.append("right after trade %+g the position in %s is %r and its posted margin %r, requirement %r"
                        % (op[2], c.symbol, float(b._holdings_quantity.get(c, 0.0)), got, want))
    else:
        b.net_liquidation_value(False)
    return msgs


def observe(sb, cs):
    return _observe(unsnap(sb), cs)


def _observe(b, cs):
    msgs = []
    try:
        nlv = float(b.net_liquidation_value(False))
    except Exception as ex:
        return ["valuation raised %r" % (ex,)]
    total = float(b._holdings_quantity[b.base_currency])
    for c in cs:
        got, want = float(b._holdings_margins.get(c, 0.0)), want_margin(b, c)
        q = float(b._holdings_quantity.get(c, 0.0))
        if abs(got - want) > 1e-9 * max(1.0, abs(want)):
            msgs.append("after a valuation the position in %s is %r and its posted margin %r, requirement %r" % (c.symbol, q, got, want))
        total += got
        if c.cash_requirement == 1.0 and q != 0:
            total += q * liq_side(b.exchange[c], q) * c.multiplier
    if abs(total - nlv) > 1e-9 * max(1.0, abs(nlv)):
        msgs.append("cash + margins + fully-paid liquidation values = %r but reported NLV = %r" % (total, nlv))
    return msgs


def search(unit):
    universe, deposit, depth, first = unit
    reset_clock()
    b0, cs = initial(universe, deposit)
    ops = alphabet(len(cs))
    res = {"states": 0, "transitions": 0, "violations": [], "snapped": 0}
    seen = set()
    frontier = deque([(snap(b0), (), first)])
    while frontier:
        sb, hist, forced = frontier.popleft()
        for op in ([forced] if forced is not None else ops):
            b = unsnap(sb)
            try:
                msgs = apply(b, cs, op)
            except Exception as ex:
                msgs = ["operation raised %r" % (ex,)]
            res["transitions"] += 1
            nh = hist + (op,)
            nsb = snap(b)
            if not msgs:
                msgs = observe(nsb, cs)
            if op[0] == "t" and float(b._holdings_quantity.get(cs[op[1]], 0.0)) == 0.0 and abs(op[2]) == BIG:
                res["snapped"] += 1
            if msgs:
                res["violations"].append((nh, "; ".join(msgs[:2])))
                continue
            k = broker_key(b, cs)
            if k in seen:
                continue
            seen.add(k)
            if len(nh) < depth:
                frontier.append((nsb, nh, None))
    res["states"] = len(seen)
    return res


# ---------------------------------------------------------------------------
# two accounts on ONE exchange (e.g. a strategy and its benchmark account fed by the same quotes): each account's invariant must
# hold whenever IT is valued, whatever the other account did with the shared books in between

def twin_alphabet(n):
    ops = [("q", c, k) for c in range(n) for k in range(len(QUOTES))]
    ops += [("t", who, c, dq) for who in (0, 1) for c in range(n) for dq in (1.0, -1.0)]
    ops += [("v", 0), ("v", 1)]
    return ops


def twin_initial(universe, deposit):
    cs = ledger.contracts_of(universe)
    ex = make_exchange(cs, QUOTES[0], 0.0)
    mk = lambda: Broker(ex, deposit=deposit, fees=BrokerFees(markup=0.0, interest_rate=RATE, proportional=0.0, fixed=0.0))
    return (mk(), mk()), cs


def twin_apply(pair, cs, op):
    if op[0] == "q":
        return apply(pair[0], cs, op)
    if op[0] == "t":
        return ["account %d: %s" % (op[1], m) for m in apply(pair[op[1]], cs, ("t", op[2], op[3]))]
    pair[op[1]].net_liquidation_value(False)
    return []


def twin_observe(spair, cs):
    msgs = []
    for order in ((0, 1), (1, 0)):
        pair = unsnap(spair)        # one pickle: the two copies still share ONE exchange
        for who in order:
            msgs += ["account %d (valued %s the other one): %s" % (who, "after" if who == order[1] else "before", m)
                     for m in observe_live(pair[who], cs)]
        if msgs:
            break
    return msgs


def observe_live(b, cs):
    return _observe(b, cs)


def search_twin(unit):
    universe, deposit, depth, first = unit
    reset_clock()
    p0, cs = twin_initial(universe, deposit)
    ops = twin_alphabet(len(cs))
    res = {"states": 0, "transitions": 0, "violations": []}
    seen = set()
    frontier = deque([(snap(p0), (), first)])
    while frontier:
        sp, hist, forced = frontier.popleft()
        for op in ([forced] if forced is not None else ops):
            pair = unsnap(sp)
            try:
                msgs = twin_apply(pair, cs, op)
            except Exception as ex:
                msgs = ["operation raised %r" % (ex,)]
            res["transitions"] += 1
            nh = hist + (op,)
            nsp = snap(pair)
            if not msgs:
                msgs = twin_observe(nsp, cs)
            if msgs:
                res["violations"].append((nh, "; ".join(msgs[:2])))
                continue
            k = (broker_key(pair[0], cs), broker_key(pair[1], cs))
            if k in seen:
                continue
            seen.add(k)
            if len(nh) < depth:
                frontier.append((nsp, nh, None))
    res["states"] = len(seen)
    return res


def run_twin(rep, tier):
    from mcx.ledger import palette
    _, deposit = palette()
    depth = 3 if tier == "quick" else 4
    units = [(u, deposit, depth, op) for u in ("fut+fut", "spot1+fut") for op in twin_alphabet(2)]
    st = tr = 0
    for (universe, _, _, _), r in zip(units, pmap(search_twin, units)):
        st += r["states"]
        tr += r["transitions"]
        for hist, msg in r["violations"]:
            rep.violation({"part": "twin", "universe": universe, "deposit": deposit, "history": [list(o) for o in hist]},
                          "%s, two accounts on one exchange, after history %s: %s" % (universe, list(hist), msg),
                          group=("twin", universe, msg.split(" ")[0], len(hist)))
    rep.add("states", st)
    rep.add("transitions", tr)
    rep.add("traces_validated_against_impl", tr)
    rep.set("twin_part", {"depth": depth, "states_upper_bound": st, "transitions": tr, "alphabet": [list(o) for o in twin_alphabet(2)],
                          "oracle": "C05 invariant for each of two accounts sharing one exchange, each valued before and after the other"})


def replay_twin(case):
    reset_clock()
    pair, cs = twin_initial(case["universe"], case["deposit"])
    msgs = []
    for op in case["history"]:
        msgs = twin_apply(pair, cs, tuple(op))
        if not msgs:
            msgs = twin_observe(snap(pair), cs)
        if msgs:
            break
    return msgs


def run_part(rep, tier):
    run_twin(rep, tier)
    from mcx.ledger import palette
    _, deposit = palette()
    depth = 4 if tier == "quick" else 5
    units = []
    for universe in ("fut+fut", "spot1+fut"):
        for op in alphabet(2):
            units.append((universe, deposit, depth, op))
    st = tr = sn = 0
    for (universe, _, _, _), r in zip(units, pmap(search, units)):
        st += r["states"]
        tr += r["transitions"]
        sn += r["snapped"]
        for hist, msg in r["violations"]:
            rep.violation({"part": "snap", "universe": universe, "deposit": deposit, "history": [list(o) for o in hist]},
                          "%s, broker epsilon 2^-6, after history %s: %s" % (universe, list(hist), msg),
                          group=("snap", universe, msg.split(" ")[0], len(hist)))
    rep.add("states", st)
    rep.add("transitions", tr)
    rep.add("traces_validated_against_impl", tr)
    rep.set("snap_part", {"epsilon": EPS, "depth": depth, "states_upper_bound": st, "transitions": tr, "trades_snapped_to_flat": sn,
                          "alphabet": [list(o) for o in alphabet(2)],
                          "oracle": "C05 invariant on the implementation's own positions (no exact ledger: a snapped residual is destroyed by design)"})


def replay(case):
    if case.get("part") == "twin":
        return replay_twin(case)
    reset_clock()
    b, cs = initial(case["universe"], case["deposit"])
    msgs = []
    for op in case["history"]:
        msgs = apply(b, cs, tuple(op))
        if not msgs:
            msgs = observe(snap(b), cs)
        if msgs:
            break
    return msgs

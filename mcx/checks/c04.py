"""C04 event delivery: complete, exactly-once, on time, ordered.

Bounded-exhaustive enumeration of grids x event multisets at every region and
boundary of the partition rule x latency x fold x history mode x episode
start, two consecutive episodes per configuration, on the real TradingEnv +
Transmitter with a recording observer; compared with R-DELIVERY."""
import itertools
from mcx.envh import *  # noqa
from mcx.ref import delivery
from mcx.enumr import deviations, multisets, shard
from mcx.common import Report, pmap, seed

LEVEL = "exploration"
BASE = datetime(2020, 1, 3, 10, 0, 0)  # a Friday


def grid_of(name):
    if name == "min":
        return [BASE + timedelta(minutes=i) for i in range(4)]
    if name == "day":
        return [BASE + timedelta(days=d) for d in (0, 3, 4, 5)]
    if name == "mixed":
        return [BASE, BASE + timedelta(seconds=60), BASE + timedelta(days=1, seconds=60), BASE + timedelta(days=4, seconds=60)]
    if name == "month":
        # same day of the month, same time of day, consecutive months (and a year change): only the calendar DATE differs
        return [datetime(2019, 11, 15, 10, 0), datetime(2019, 12, 15, 10, 0), datetime(2020, 1, 15, 10, 0), datetime(2021, 1, 15, 10, 0)]
    if name == "min5":
        return [BASE + timedelta(minutes=i) for i in range(5)]
    if name == "min12":
        # a longer stream: with two contracts 24 bar events, every timestamp shared by two of them
        return [BASE + timedelta(minutes=i) for i in range(12)]
    raise KeyError(name)


def positions(G, L):
    pos = [G[0] - timedelta(seconds=5)]
    for g in G:
        pos += [g - timedelta(seconds=1), g, g + timedelta(seconds=0.4),
                g + timedelta(seconds=L if L else 2), g + timedelta(seconds=L + 0.4 if L else 3),
                g + timedelta(seconds=45)]
    pos.append(G[-1] + timedelta(hours=1))
    return sorted(set(pos))


SINK3 = [None]     # sink of the third observer of the environment built last (one environment at a time per process)


def build(cfg):
    """Returns env, sinks, events (list of (time, key)), id->key map, grid."""
    reset_clock()
    G = grid_of(cfg["grid"])
    L = cfg["L"]
    contracts = [A, B][:cfg["ncon"]]
    bars = bar_events(G, contracts)
    k = cfg.get("dropbar")
    if k:
        # grid point k carries no bar: its quotes are stamped one second EARLIER, so the last event of that step is
        # stamped before the timestep (the environment's notifications must carry the event's time, not the timestep's)
        bars = [EventNBBO(e.time - timedelta(seconds=1), e.contract, e.bid_price, e.ask_price) if e.time == G[k] else e for e in bars]
    k2 = cfg.get("latentonly")
    if k2 and L:
        # grid point k2 carries no bar of its own: its quotes are stamped INSIDE the latency window of the preceding timestep, so
        # the only events it owns are latent ones (they are due before the execution of that step, and replayed like any other)
        bars = [EventNBBO(G[k2 - 1] + timedelta(seconds=L / 2.0), e.contract, e.bid_price, e.ask_price) if e.time == G[k2] else e for e in bars]
    pos = positions(G, L)
    extras = []
    for j, (pi, kind) in enumerate(cfg["extras"]):
        t = pos[pi]
        if kind == "Q":
            extras.append(EventNBBO(t, A, 200.0 + j, 200.0 + j))
        elif kind == "D":
            extras.append(EventContractDiscontinued(t, B))
        else:
            extras.append(Custom(t, j))
    if cfg.get("swap_extras") and len(extras) >= 2:
        extras = extras[::-1]
    evs = (extras + bars) if cfg.get("extras_first") else (bars + extras)
    half = (G[1] - G[0]) / 3
    fold = {"whole": (G[0], G[-1]), "late": (G[2], G[-1]), "middle": (G[1], G[2]),
            # fold boundaries that fall strictly between two timesteps
            "endmid": (G[0], G[2] + half), "startmid": (G[0] + half, G[-1]), "bothmid": (G[0] + half, G[2] + half),
            "single": (G[1], G[1])}[cfg["fold"]]
    markov = cfg["hist"] == "markov"
    warm = {"all": None, "markov": None, "warm1": G[1] - G[0], "warm2": G[2] - G[0]}[cfg["hist"]]
    timesteps = list(G)
    if cfg.get("unsorted"):
        timesteps = [G[2], G[0], G[3], G[1], G[2]] + G[4:]
    tr = Transmitter(timesteps, folds={"training-set": list(fold)}, markov_reset=markov, warmup=warm)
    tr.add_events(list(evs))
    sink, sink2 = [], []
    sink3 = SINK3[0] = []
    # the parent-class observer is created before its subclass
    rec = Rec(sink, [OnlyCustom(sink2), CustomStepsQuotes(sink3)])
    env = TradingEnv(BoxPortfolio(contracts, -1, 1), transmitter=tr, state=rec, latency=L,
                     episode_length=cfg["eplen"])
    if cfg.get("late_ts"):
        # the calendar of a second data source (the same grid points) registered AFTER the environment was built
        tr.add_timesteps(list(G))
    keyed = [(e.time, "e%d" % i) for i, e in enumerate(evs)]
    idmap = {id(e): "e%d" % i for i, e in enumerate(evs)}
    kinds = {"e%d" % i: type(e).__name__ for i, e in enumerate(evs)}
    quotes = {"e%d" % i: (e.contract.symbol, e.bid_price) for i, e in enumerate(evs) if isinstance(e, EventNBBO)}
    return env, sink, sink2, keyed, idmap, kinds, quotes, G, fold, markov, warm, evs


def check_episode(env, sink, sink2, lo, lo2, plan, idmap, kinds, quotes, trace, ncon):
    msgs = []
    if trace["error"] is not None:
        where, ex = trace["error"]
        return ["exception escaped %s: %r" % (where, ex)]
    log = sink[lo:]
    # ---- split the log at the environment's own notifications
    phases = []       # (marker kind, [E entries])
    cur = []
    for ent in log:
        if ent[0] == "E":
            cur.append(ent)
        elif ent[0] in ("Reset", "Step"):
            phases.append((ent[0], cur))
            cur = []
    if cur:
        msgs.append("market events delivered after the last reset/step notification: %r" % [(idmap.get(e[1]), str(e[2])) for e in cur])
    if not phases or phases[0][0] != "Reset":
        return msgs + ["no reset notification observed"]
    # ---- reset phase
    delivered = [idmap.get(e[1], "?") for e in phases[0][1]]
    if len(set(delivered)) != len(delivered):
        msgs.append("event delivered more than once at reset: %r" % delivered)
    allowed = set(plan.reset_must) | plan.reset_may
    extra = [k for k in delivered if k not in allowed]
    if extra:
        msgs.append("events delivered at reset that do not belong there: %r" % [(k, str(plan.slots[k][2]) if k in plan.slots else None) for k in extra])
    missing = [k for k in plan.reset_must if k not in delivered]
    if missing:
        msgs.append("events missing from the reset replay: %r" % [(k, str(plan.slots[k][2])) for k in missing])
    okeys = [plan.order_key[k] for k in delivered if k in plan.order_key]
    if okeys != sorted(okeys):
        msgs.append("reset replay not in timestamp/insertion order: %r" % [(k, str(plan.slots[k][2])) for k in delivered if k in plan.slots])
    # book state after reset = chronologically last delivered quote per contract
    # (checked by the caller right after reset, see run_config)
    # ---- step phases
    steps_taken = len(phases) - 1
    if steps_taken != len(plan.per_step):
        msgs.append("episode had %d steps, expected %d (steps %r)" % (steps_taken, len(plan.per_step), [str(s) for s in plan.steps]))
    for k, (kind, ents) in enumerate(phases[1:], start=1):
        if k - 1 >= len(plan.per_step):
            break
        exp_lat, exp_non = plan.per_step[k - 1]
        got_lat = [idmap.get(e[1], "?") for e in ents if e[3] == k - 1]
        got_non = [idmap.get(e[1], "?") for e in ents if e[3] == k]
        other = [e for e in ents if e[3] not in (k - 1, k)]
        if other:
            msgs.append("step %d: events delivered with %r track-record entries" % (k, [e[3] for e in other]))
        if got_lat != exp_lat:
            msgs.append("step %d: events applied BEFORE the execution %r, expected (within latency of the preceding timestep) %r"
                        % (k, [(x, str(plan.slots[x][2])) for x in got_lat if x in plan.slots], [(x, str(plan.slots[x][2])) for x in exp_lat]))
        if got_non != exp_non:
            msgs.append("step %d: events applied AFTER the execution %r, expected %r"
                        % (k, [(x, str(plan.slots[x][2])) for x in got_non if x in plan.slots], [(x, str(plan.slots[x][2])) for x in exp_non]))
        order = [e[3] for e in ents]
        if order != sorted(order):
            msgs.append("step %d: a pre-execution event was delivered after a post-execution one" % k)
    # ---- global ordering and stamps
    unstamped = [e for e in log if not isinstance(e[2], datetime)]
    if unstamped:
        # a notification without a time (e.g. a new-date notice sent before any market event of the episode)
        return msgs + ["%s notification delivered with time %r" % (unstamped[0][0], unstamped[0][2])]
    times = [e[2] for e in log]
    for a, b, ea, eb in zip(times, times[1:], log, log[1:]):
        if a > b:
            msgs.append("timestamps go backwards: %s %s then %s %s" % (ea[0], a, eb[0], b))
            break
    last = None
    for ent in log:
        if ent[0] == "E":
            last = ent[2]
        elif last is not None and ent[2] != last:
            msgs.append("%s notification stamped %s but the latest market event processed is %s" % (ent[0], ent[2], last))
            break
    # new-date notifications: exactly one between two consecutive market events of different dates, none otherwise
    prev_e = None
    pending_nd = 0
    for ent in log:
        if ent[0] == "NewDate":
            pending_nd += 1
        elif ent[0] == "E":
            if prev_e is not None:
                changed = ent[2].date() != prev_e[2].date()
                if changed and pending_nd != 1:
                    msgs.append("%d new-date notifications between the events stamped %s and %s" % (pending_nd, prev_e[2], ent[2]))
                    break
                if not changed and pending_nd:
                    msgs.append("new-date notification between two events of the same date (%s, %s)" % (prev_e[2], ent[2]))
                    break
            pending_nd = 0
            prev_e = ent
    # done notification
    kinds_seq = [e[0] for e in log if e[0] != "E" and e[0] != "NewDate"]
    if steps_taken == len(plan.per_step):
        if kinds_seq[-1:] != ["Done"] or kinds_seq.count("Done") != 1:
            msgs.append("expected exactly one done notification at the end, got %r" % kinds_seq)
    # env.now() after every call = latest market event delivered so far
    calls = trace["calls"]
    idx = 0
    last = None
    call_i = 0
    for ent in log:
        if ent[0] == "E":
            last = ent[2]
        if ent[0] in ("Reset", "Step"):
            if call_i < len(calls) and last is not None and calls[call_i][1] != last:
                msgs.append("env.now() after %s #%d is %s, latest market event processed %s" % (calls[call_i][0], call_i, calls[call_i][1], last))
                break
            call_i += 1
    # done flag
    if calls and steps_taken == len(plan.per_step):
        if not calls[-1][2]:
            msgs.append("last call did not report done")
        if any(c[2] for c in calls[:-1]):
            msgs.append("done reported before the last timestep")
    # (the stamps of the track-record entries are C07's subject and are not judged here)
    # second observer (subscribed to Custom only)
    exp2 = [e[1] for e in log if e[0] == "E" and kinds.get(idmap.get(e[1])) == "Custom"]
    got2 = [e[1] for e in sink2[lo2:]]
    if exp2 != got2:
        msgs.append("single-type observer received %d custom events, all-type observer %d (or different order)" % (len(got2), len(exp2)))
    # third observer: subclass of the second one, also subscribed to quotes and to the step notification
    s3 = SINK3[0]
    if s3 is not None:
        mine = s3[LO3[0]:]
        for tag, kind_name, marker in (("E", "Custom", "E"), ("Q", "EventNBBO", "E")):
            exp3 = [e[1] for e in log if e[0] == marker and kinds.get(idmap.get(e[1])) == kind_name]
            got3 = [e[1] for e in mine if e[0] == tag]
            if exp3 != got3:
                msgs.append("subclass observer received %d %s events, all-type observer %d (or different order)" % (len(got3), kind_name, len(exp3)))
        nstep = sum(1 for e in log if e[0] == "Step")
        if sum(1 for e in mine if e[0] == "Step") != nstep:
            msgs.append("subclass observer received %d step notifications, all-type observer %d" % (sum(1 for e in mine if e[0] == "Step"), nstep))
    return msgs


LO3 = [0]


def run_config(cfg):
    """Execute one configuration (two consecutive episodes); returns
    (messages, outcome signature)."""
    try:
        env, sink, sink2, keyed, idmap, kinds, quotes, G, fold, markov, warm, evs = build(cfg)
    except Exception as ex:
        return ["building the environment raised %r" % (ex,)], None
    msgs = []
    ncon = cfg["ncon"]
    outcome = []
    for ep in range(2):
        n = cfg["eplen"]
        base_plan = delivery.make_plan(G, keyed, cfg["L"], fold, markov, warm, None)
        if n is not None:
            cands = len(base_plan.fold_steps) - n
            if cands <= 0:
                return [], None  # refusal cases belong to C15
            start = (cfg["start"] + ep) % cands
            plan = delivery.make_plan(G, keyed, cfg["L"], fold, markov, warm, (start, n))
        else:
            start = 0
            plan = base_plan
        if ep == 1:
            # a feature appended to the state between two episodes is an observer like any other from the next reset on
            sink4 = []
            try:
                env.state.features.append(LateCustom(sink4))
            except Exception as ex:
                return ["appending a feature to the state raised %r" % (ex,)], None
        lo, lo2 = len(sink), len(sink2)
        LO3[0] = len(SINK3[0])
        with ChoiceSeam(pick=start) as seam:
            state = {"after_reset": None}
            trace = {"calls": [], "error": None}
            try:
                env.reset()
                trace["calls"].append(("reset", env.now(), env._done))
                # book state right after reset
                for c in [A, B][:ncon]:
                    if c is B and any(k_ == "D" for _, k_ in cfg["extras"]):
                        continue    # B may have been discontinued in the replayed history
                    lastq = None
                    for ent in sink[lo:]:
                        if ent[0] == "E":
                            k = idmap.get(ent[1])
                            if k in quotes and quotes[k][0] == c.symbol:
                                if lastq is None or plan.order_key[k] >= plan.order_key[lastq]:
                                    lastq = k
                    if lastq is not None and env.exchange[c].bid_price != quotes[lastq][1]:
                        msgs.append("episode %d: after reset the book of %s shows %r but the chronologically last quote replayed is %r"
                                    % (ep, c.symbol, env.exchange[c].bid_price, quotes[lastq][1]))
                guard = 0
                while not env._done and guard < 50:
                    o, r, d, info = env.step(np.zeros(ncon))
                    trace["calls"].append(("step", env.now(), d))
                    guard += 1
            except Exception as ex:
                trace["error"] = ("reset/step", ex)
        if n is not None and not seam.calls:
            msgs.append("episode %d: episode length set but no start was drawn through numpy.random.choice" % ep)
        m = check_episode(env, sink, sink2, lo, lo2, plan, idmap, kinds, quotes, trace, ncon)
        msgs += ["episode %d: %s" % (ep, x) for x in m]
        if ep == 1 and trace["error"] is None:
            got4 = [e[1] for e in sink4]
            if got4 != [e[1] for e in sink2[lo2:]]:
                msgs.append("episode 1: a feature appended to the state before this episode received %d custom events, the original single-type feature %d"
                            % (len(got4), len(sink2) - lo2))
        outcome.append(tuple((e[0], idmap.get(e[1]), e[2], e[3]) for e in sink[lo:]))
        if msgs:
            break
    return msgs, hash(tuple(outcome))


CROSSED = [("L", [0, 30, 0.1]), ("fold", ["whole", "late", "middle", "endmid", "startmid", "bothmid", "single"]), ("hist", ["all", "markov", "warm1", "warm2"])]
DEVIATE = [("grid", ["min", "day", "mixed", "min12", "month"]), ("ncon", [2, 1]), ("eplen", [None, 1, 2]), ("start", [0, 1, 2]),
           ("unsorted", [False, True]), ("extras_first", [False, True]), ("swap_extras", [False, True]), ("dropbar", [0, 1, 2]), ("latentonly", [0, 1, 2]),
           ("late_ts", [False, True])]


def configs(tier):
    bound = 2 if tier == "quick" else 3
    max_extras = 2 if tier == "quick" else 3
    npos = len(positions(grid_of("min"), 30))   # extra-event positions are taken around the first four grid points
    items = [(pi, kind) for pi in range(npos) for kind in (("Q", "C") if tier == "quick" else ("Q", "C", "D"))]
    for crossed in itertools.product(*[alts for _, alts in CROSSED]):
        base = dict(zip([n for n, _ in CROSSED], crossed))
        for cost, dev in deviations(DEVIATE, bound):
            if dev["start"] != 0 and dev["eplen"] is None:
                continue
            if dev["latentonly"] and not (base["L"] and base["fold"] == "late" and dev["eplen"] is None and dev["grid"] == "min"):
                # a timestep owning only latent events must lie at or before the episode's FIRST timestep (it is then replayed, never
                # stepped through): stepping through it would leave two executions with the same time, which the track record refuses
                continue
            left = min(max_extras, bound - cost)
            for ms in multisets(items, left):
                if dev["swap_extras"] and len(ms) < 2:
                    continue
                if dev["extras_first"] and len(ms) < 1:
                    continue
                if tier == "thorough" and len(ms) == 3 and (base["hist"] in ("warm2",) or base["fold"] == "middle"):
                    continue  # keep the 3-extras layer to the settings it can interact with
                cfg = dict(base)
                cfg.update(dev)
                cfg["extras"] = [list(items[i]) for i in ms]
                yield cfg


def _work(chunk):
    out = {"evaluations": 0, "violations": [], "outcomes": set(), "nontrivial": set()}
    for cfg in chunk:
        msgs, outcome = run_config(cfg)
        out["evaluations"] += 1
        if outcome is not None:
            out["outcomes"].add(outcome)
            if cfg["extras"] or cfg["L"] or cfg["fold"] != "whole" or cfg["hist"] != "all":
                out["nontrivial"].add(outcome)
        if msgs:
            out["violations"].append((cfg, "; ".join(msgs[:3]), (msgs[0].split(":")[1].strip().split(" ")[0] if ":" in msgs[0] else msgs[0][:20],
                                                                  cfg["L"], cfg["fold"], cfg["hist"], cfg["grid"])))
    return out


def run(tier, **kw):
    rep = Report("C04", tier, LEVEL)
    cfgs = list(configs(tier))
    chunks = shard(cfgs, 64 if tier == "quick" else 256)
    outcomes, nontrivial = set(), set()
    for r in pmap(_work, chunks):
        rep.add("evaluations", r["evaluations"])
        outcomes |= r["outcomes"]
        nontrivial |= r["nontrivial"]
        for case, msg, group in r["violations"]:
            rep.violation(case, msg, group=group)
    rep.set("distinct_outcomes", len(outcomes))
    rep.set("distinct_nontrivial", len(nontrivial))
    rep.set("deviation_bound_completed", 2 if tier == "quick" else 3)
    rep.set("exhaustive", True)
    rep.set("rule", "one evaluation = one configuration run for two consecutive episodes on a real TradingEnv; enumerated: latency {0, 30 s, 0.1 s} x "
                    "fold {whole, late, middle, and three windows whose boundaries fall between two timesteps} x history {all, markov, warm-up 1 gap, warm-up 2 gaps} fully crossed, times every assignment of "
                    "{grid shape, 1 or 2 contracts, episode length/start, unsorted+duplicated grid input, the grid registered a second time after the environment was built, insertion order} and multisets of extra "
                    "events (quote or custom event at each of ~26 region/boundary positions) with at most `deviation_bound_completed` deviations "
                    "in total; distinct_nontrivial = distinct delivery logs (kind, event, executions-so-far) among configurations with a non-default setting or an extra event")
    rep.set("samples", [cfgs[0], cfgs[len(cfgs) // 2], cfgs[-1]])
    rep.assumptions = [
        "bar stream: a quote for every contract at every grid point (so every grid point bears a post-execution event)",
        "under markov reset, events stamped before the first grid point may or may not be delivered; under a warm-up horizon an event stamped before the horizon whose timestep is inside it may or may not be replayed",
        "zero actions (no trades) - executions are observed through the track-record length seen by each callback",
    ]
    return rep.finish(replay)


def replay(case, **kw):
    msgs, _ = run_config(case)
    return msgs


def probe():
    cfg = {"L": 30, "fold": "late", "hist": "all", "grid": "min", "ncon": 2, "eplen": None, "start": 0,
           "unsorted": False, "extras_first": False, "swap_extras": False, "extras": [[3, "Q"], [9, "C"]]}
    env, sink, *_rest = build(cfg)
    idmap = _rest[2]
    env.reset()
    while not env._done:
        env.step(np.zeros(2))
    return repr([(e[0], idmap.get(e[1]), str(e[2]), e[3]) for e in sink])

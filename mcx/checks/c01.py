"""C01 (self-financing trading) and C05 (margin invariant / NLV decomposition):
explicit-state search over real Broker states with the R-LEDGER reference in
lock-step.  One module, two properties: `PID` selects which oracle's findings
are reported (the exploration is identical)."""
from mcx import ledger
from mcx.common import Report, pmap, seed

LEVEL = "model_checking"


def plan(tier, pid="C01"):
    if tier == "quick":
        # one unit is explored a level deeper (split by first operation); C01 and C05 take different ones
        deep = "spot1+fut" if pid == "C01" else "fut+fut"
        combos = [("spot1+fut", 0, 4 if deep == "spot1+fut" else 3), ("spot4+fut", 1, 3), ("fut+fut", 4, 4 if deep == "fut+fut" else 3),
                  ("etf+es", 5, 3), ("spot+spot", 1, 3), ("halfmult", 3, 3),
                  ("spot1+fut", 4, 3), ("fut+fut", 0, 3), ("etf+es", 1, 3), ("halfmult", 2, 3), ("spot4+fut", 5, 3), ("spot+spot", 3, 3)]
        return [(u, ledger.FEES[f], d, 0.0) for u, f, d in combos] + [("micro", ledger.FEES[1], 3, 0.0), ("penny", ledger.FEES[0], 3, 0.0), ("spot1+fut", ledger.FEES[1], 3, 0.05), ("fut+fut", ledger.FEES[0], 3, 0.05), ("three", ledger.FEES[1], 3, 0.0)]
    out = []
    for u in ledger.UNIVERSES:
        for f in (ledger.FEES[0], ledger.FEES[1], ledger.FEES[4], ledger.FEES[5]):
            out.append((u, f, 4 if u != "three" else 3, 0.0))
    out.append(("three", ledger.FEES[1], 4, 0.0))
    out.append(("micro", ledger.FEES[1], 4, 0.0))
    out.append(("micro", ledger.FEES[0], 4, 0.05))
    out.append(("penny", ledger.FEES[0], 4, 0.0))
    out.append(("penny", ledger.FEES[3], 4, 0.0))
    # a level deeper on four combinations (split by first operation)
    for u, f in (("spot1+fut", 1), ("fut+fut", 4), ("spot4+fut", 0), ("etf+es", 5)):
        out.append((u, ledger.FEES[f], 5, 0.0))
    # interest accruing inside rebalances (rate 5%, markup 1%)
    for u in ("spot1+fut", "fut+fut", "spot+spot", "etf+es"):
        out.append((u, ledger.FEES[1], 4, 0.05))
    return out


RESPEC_PAIRS = [("spot1+fut", "respec"), ("respec", "spot1+fut")]


def _unit(u):
    universe, fee, depth, rate, scale, deposit, first = u
    prior = None
    if "<" in universe:
        # "B<A": universe A is explored first IN THIS PROCESS, then B, which re-uses A's contract symbols with other specifications;
        # only B's exploration is reported (A has its own unit)
        universe, prior = universe.split("<")
        ledger.bfs(prior, fee, depth, scale, deposit, ledger.alphabet(), rate=rate)
    r = ledger.bfs(universe, fee, depth, scale, deposit, ledger.alphabet(ncontracts=len(ledger.contracts_of(universe))), rate=rate, first_ops=first)
    r["unit"] = (universe, fee, depth, rate)
    r["split"] = first is not None
    r["prior"] = prior
    return r


def run(tier, pid):
    rep = Report(pid, tier, LEVEL)
    scale, deposit = ledger.palette()
    ops = ledger.alphabet()
    units = []
    for (u, f, d, rt) in plan(tier, pid):
        if d >= (4 if tier == "quick" else 5):
            # deep units are split by first operation (each part deduplicates on its own) to use all cores
            for op in ledger.alphabet(ncontracts=len(ledger.contracts_of(u))):
                units.append((u, f, d, rt, ledger.unit_scale(u, scale), deposit, [op]))
        else:
            units.append((u, f, d, rt, ledger.unit_scale(u, scale), deposit, None))
    for a, b_ in RESPEC_PAIRS:
        units.append(("%s<%s" % (b_, a), ledger.FEES[0], 2 if tier == "quick" else 3, 0.0, scale, deposit, None))
    samples = []
    per_unit = []
    merged = {}
    observed = []
    for r in pmap(_unit, units):
        if len(observed) < 3 and r.get("last_history"):
            observed.append({"universe": r["unit"][0], "fee": list(r["unit"][1]), "history": r["last_history"],
                             "meaning": "an actual history explored by this run (the last new state of its unit)"})
        rep.add("states", r["states"])
        rep.add("transitions", r["transitions"])
        rep.add("traces_validated_against_impl", r["transitions"])
        rep.add("distinct_observed_nlv", r["distinct_nlv"])
        if r["split"]:
            m = merged.get(r["unit"])
            if m is None:
                m = merged[r["unit"]] = {"universe": r["unit"][0], "fee": r["unit"][1], "depth": r["unit"][2], "rate": r["unit"][3],
                                         "states": 1, "transitions": 0, "frontier_per_depth": [1], "capped": False,
                                         "split_by_first_operation": True}
                per_unit.append(m)
            m["states"] += r["states"] - 1
            m["transitions"] += r["transitions"]
            m["capped"] = m["capped"] or r["capped"]
            for i, n in enumerate(r["per_depth"]):
                if i == 0:
                    continue
                while len(m["frontier_per_depth"]) <= i:
                    m["frontier_per_depth"].append(0)
                m["frontier_per_depth"][i] += n
        else:
            per_unit.append({"universe": r["unit"][0], "fee": r["unit"][1], "depth": r["unit"][2], "rate": r["unit"][3],
                             "states": r["states"], "transitions": r["transitions"],
                             "frontier_per_depth": r["per_depth"], "capped": r["capped"]})
        for vpid, hist, msg in r["violations"]:
            if vpid != pid:
                continue
            case = {"universe": r["unit"][0], "fee": list(r["unit"][1]), "scale": ledger.unit_scale(r["unit"][0], scale), "rate": r["unit"][3],
                    "deposit": deposit, "history": [list(o) for o in hist]}
            if r.get("prior"):
                case["prior_universe"] = r["prior"]
            rep.violation(case, "%s%s after history %s: %s" % (r["unit"][0], " (explored after %s in the same process)" % r["prior"] if r.get("prior") else "", list(hist), msg),
                          group=(r["unit"][0], msg.split(" ")[0], len(hist)))
    if pid == "C05":
        from mcx.checks import c05snap
        c05snap.run_part(rep, tier)
    rep.set("units", sorted(per_unit, key=lambda x: (x["universe"], x["fee"])))
    rep.set("alphabet", [list(o) for o in ops])
    rep.set("palette", {"scale": scale, "deposit": deposit})
    rep.set("exhaustive", not any(u["capped"] for u in per_unit))
    rep.set("bound", "every history of at most depth operations over the alphabet, per unit; units marked split_by_first_operation "
                     "deduplicate per first operation, so their state count is an upper bound on the distinct states")
    rep.set("samples", observed + [
        {"universe": "spot1+fut", "history": [["q", 1, 1], ["t", 1, 1.0], ["t", 1, 1.0], ["v"]],
         "meaning": "quote F 100/104, buy 1 F, buy 1 F, value: lock-step ledger comparison after each op"},
        {"universe": "spot4+fut", "history": [["t", 0, 2.0], ["q", 0, 2], ["r", 1]],
         "meaning": "buy 2 S4 (multiplier 4), quote drops to 92/96, rebalance to weights (-1/2, 0)"},
    ])
    rep.assumptions = [
        "quotes 0 < bid <= ask from a 4-entry palette per contract; trades of +-1/+-2 lots and 3 rebalance targets",
        "two units explore a universe right after another one that uses the same contract symbols with other specifications, in one process (both orders)",
        "interest accrued during rebalances is taken from Rebalancing.profit_on_idle_cash (its amount is C06's subject); rate book is 0 except in the units marked rate=0.05",
        "state key = every field Broker methods read (cash, positions, margins, reference prices, books, last accrual); quote history and track record dropped",
        "numeric comparison: exact Fraction reference vs float implementation within 1e-9 relative",
    ]
    return rep.finish(lambda case: replay(case, pid))


def replay(case, pid=None):
    if case.get("part") in ("snap", "twin"):
        from mcx.checks import c05snap
        return c05snap.replay(case)
    if case.get("prior_universe"):
        # the counterexample needs an earlier simulation in the same process on contracts with the same symbols
        ledger.bfs(case["prior_universe"], tuple(case["fee"]), max(2, len(case["history"])), case["scale"], case["deposit"], ledger.alphabet(), rate=case.get("rate", 0.0))
    out = ledger.replay_history(case["universe"], tuple(case["fee"]), case["scale"], case["deposit"], case["history"],
                                rate=case.get("rate", 0.0))
    return ["%s step %d: %s" % (p, i, m) for p, i, m in out if pid is None or p == pid]


def probe():
    """Determinism probe: observation log of a fixed history."""
    b, ref, cs = ledger.initial("spot1+fut", ledger.FEES[1], 1.0, 65536.0)
    log = []
    for op in [("q", 1, 1), ("t", 1, 2.0), ("t", 0, -1.0), ("r", 0), ("q", 0, 2), ("v",)]:
        ref, _ = ledger.apply_op(b, ref, cs, op, 1.0, ledger.FEES[1])
        log.append((b.net_liquidation_value(False).hex(), sorted((k.symbol, float(v).hex()) for k, v in b.holdings_quantity.items())))
    return repr(log)

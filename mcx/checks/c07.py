"""C07 track record and rewards are a faithful, replayable account of the episode.

Bounded-exhaustive: complete episodes on bar data x contract mixes (spot, user
margined, ES-like, ES chain across a roll) x spread/fees/interest-rate path x
latency x delay x reward x ALL action sequences; an independent ledger is driven
only by the track record and the exchange's quote history."""
import itertools
import math
from mcx.envh import *  # noqa
from mcx.enumr import shard
from mcx.common import Report, pmap, close
from tradingenv.contracts import ES, FutureChain
from tradingenv.rewards import RewardSimpleReturn, RewardLogReturn, LogReturn, RewardPnL, AbstractReward

LEVEL = "exploration"
ACTIONS = [(0.5, 0.25), (-0.25, 0.75), (0.0, 1.0)]
# targets in numbers of contracts whose differences are not exact in binary: repeating one leaves a float-dust imbalance,
# which is a recorded (and charged) trade like any other
LOT_ACTIONS = [(0.4, 0.1), (1.7, 0.3), (0.7, 1.1)]
REWARDS = ["simple", "log", "shaped", "pnl"]
RATES = [0.02, 0.05, 0.0, 0.03, 0.01, 0.04, 0.02]


def days(start, n):
    out, d = [], start
    while len(out) < n:
        if d.weekday() < 5:
            out.append(d)
        d += timedelta(days=1)
    return out


def make_reward(name):
    return {"simple": RewardSimpleReturn, "log": RewardLogReturn, "pnl": RewardPnL}[name]() if name != "shaped" \
        else LogReturn(scale=0.25, clip=0.5, risk_aversion=0.5)


def universe(name, nbars):
    """returns (contracts for the space, events, grid)"""
    if name == "chain":
        chain = FutureChain(ES, datetime(2021, 1, 1), datetime(2021, 12, 31))
        lead = chain.lead_contract(datetime(2021, 3, 1))
        G = days(lead.last_trading_date - timedelta(days=2), nbars)
        evs = []
        etf = ETF("A")
        for i, g in enumerate(G):
            evs.append(EventNBBO(g, etf, 100.0 + 3 * i, 101.0 + 3 * i))
            for j, c in enumerate(chain.contracts):
                if g < c.expiry:
                    evs.append(EventNBBO(g, c, 3000.0 + 10 * i + 25 * j, 3002.0 + 10 * i + 25 * j))
        return [etf, chain], evs, G, 1e6
    G = days(datetime(2021, 3, 1), nbars)
    if name == "crash":
        # one bar in which the margined contract loses 88% of its price: a fully invested account keeps ~12% of its value
        # (log return below -2), and recovers nine-fold two bars later when still fully invested
        cs = [ETF("A"), UC("FUT", 2.0, 0.0, 0.25)]
        px = [96.0, 100.0, 104.0, 12.0, 13.0, 120.0, 124.0, 128.0]
        evs = []
        for i, g in enumerate(G):
            evs.append(EventNBBO(g, cs[0], 64.0 + 4 * i, 66.0 + 4 * i))
            evs.append(EventNBBO(g, cs[1], px[i], px[i] + 0.25))
        return cs, evs, G, 65536.0
    if name == "spot+fut":
        cs = [ETF("A"), UC("FUT", 2.0, 0.0, 0.25)]
    elif name == "mult+es":
        cs = [UC("S4", 4.0, 1.0, 0.0), UC("ESX", 50.0, 0.0, 0.1)]
    else:
        raise KeyError(name)
    return cs, bar_events(G, cs, base=64.0, spread=2.0, step=4.0), G, 65536.0


def build(cfg):
    reset_clock()
    uni, L, delay, reward, rates, fees, nbars = cfg
    threshold = 0.0
    tick = uni.endswith(":tick")
    if tick:
        uni = uni[:-5]
    lots = uni.endswith(":lots")
    if lots:
        uni = uni[:-5]
    if uni.endswith(":thr"):
        # a large no-trade threshold: repeating a decision trades nothing, so entries WITHOUT trades follow entries with trades
        uni, threshold = uni[:-4], 0.2
    cs, evs, G, cash = universe(uni, nbars)
    evs = list(evs)
    first = cs[0]
    if L:
        # an extra quote inside the latency window after bar 1 (applied before execution 2)
        evs.append(EventNBBO(G[1] + timedelta(seconds=10), first, 90.0, 93.0))
        evs.append(EventNBBO(G[2] + timedelta(seconds=31), first, 80.0, 81.0))
        # ... and for the margined contract, so that variation margin is booked between the previous valuation and the snapshot
        second = cs[1]
        if hasattr(second, "lead_contract"):
            second = second.lead_contract(G[2])
            evs.append(EventNBBO(G[2] + timedelta(seconds=20), second, 3100.0, 3103.0))
        else:
            base_px = [e for e in evs if isinstance(e, EventNBBO) and e.contract is second and e.time == G[2]][0]
            evs.append(EventNBBO(G[2] + timedelta(seconds=20), second, base_px.bid_price * 1.0625, base_px.ask_price * 1.0625))
    if rates:
        for i, g in enumerate(G):
            evs.append(EventNBBO(g, RATE, RATES[i % len(RATES)], RATES[i % len(RATES)]))
    tr = Transmitter(list(G))
    tr.add_events(evs)
    sink = []
    rec = RecTick(sink) if tick else Rec(sink)
    bf = BrokerFees(markup=0.01 if rates else 0.0, interest_rate=RATE, proportional=(1.0 / 64 if fees else 0.0), fixed=(1.0 if fees else 0.0))
    env = TradingEnv(BoxPortfolio(cs, -1.0, 1.5, margin=threshold) if not lots else BoxPortfolio(cs, -3.0, 3.0, as_weights=False), transmitter=tr, state=rec, latency=L, steps_delay=delay,
                     initial_cash=cash, broker_fees=bf, reward=make_reward(reward))
    return env, sink, cash


def liq_at(env, contract, q, t):
    """liquidation price of `contract` from the exchange's quote HISTORY at time t"""
    h = env.exchange[contract].history
    best = None
    for i, ht in enumerate(h["time"]):
        if ht <= t:
            best = i
    if best is None:
        return None
    return h["bid_price"][best] if q > 0 else h["ask_price"][best]


class Led:
    def __init__(self, deposit):
        self.D, self.I, self.K = deposit, 0.0, 0.0
        self.pos = {}      # contract -> [q, B]

    def nlv(self, env, t):
        v = self.D + self.I - self.K
        for c, (q, B) in self.pos.items():
            if abs(q) > 1e-12:
                p = liq_at(env, c, q, t)
                if p is None or p != p:
                    return None
                v += c.multiplier * (q * p - B)
            else:
                v += c.multiplier * (-B)
        return v


def expected_reward(name, now, pre):
    if name == "simple":
        return now / pre - 1
    if name == "pnl":
        return now - pre
    r = math.log(now / pre)
    if name == "log":
        return r
    r = r / 0.25
    r = max(-0.5, min(0.5, r))
    if r < 0:
        r *= 1.5
    return r


def run_sequence(env, sink, cash, cfg, seq):
    uni, L, delay, reward, rates, fees, nbars = cfg
    msgs = []
    lo = len(sink)
    try:
        env.reset()
    except Exception as ex:
        return ["reset raised %r" % (ex,)]
    led = Led(cash)
    tr = env.broker.track_record
    rewards = []
    frozen = []     # what each entry reported when it was created; entries must not change afterwards
    for k, a in enumerate(seq):
        try:
            o, r, done, info = env.step(np.array((LOT_ACTIONS if uni.endswith(":lots") else ACTIONS)[a]))
        except Exception as ex:
            return msgs + ["step %d raised %r" % (k, ex)]
        if len(tr) != k + 1:
            return msgs + ["track record has %d entries after %d executed decisions" % (len(tr), k + 1)]
        e = tr[k]
        # --- time stamp: strictly increasing, = time of the latest event processed before the execution
        if k and not (tr[k - 1].time < e.time):
            msgs.append("entry %d stamped %s, not after entry %d stamped %s" % (k, e.time, k - 1, tr[k - 1].time))
        pre_t = None
        for ent in sink[lo:]:
            if ent[0] == "E" and ent[3] is not None and ent[3] <= k:
                pre_t = ent[2]
        if pre_t is not None and e.time != pre_t:
            msgs.append("entry %d stamped %s but the latest event processed before that execution is stamped %s" % (k, e.time, pre_t))
        # --- replay into the independent ledger
        led.I += float(e.profit_on_idle_cash)
        pre = led.nlv(env, e.time)
        if pre is None or not close(e.context_pre.nlv, pre):
            msgs.append("entry %d: recorded pre-trade NLV %r, replaying recorded trades/interest against the quote history gives %r"
                        % (k, e.context_pre.nlv, pre))
        # the pre-trade snapshot must describe the account BEFORE this entry's trades
        for c, (q, B) in led.pos.items():
            if not close(e.context_pre.nr_contracts.get(c, 0.0), q):
                msgs.append("entry %d: recorded PRE-trade holding of %s is %r, ledger (before this entry's trades) %r"
                            % (k, c, e.context_pre.nr_contracts.get(c, 0.0), q))
            if pre and abs(q) > 1e-12:
                p0 = liq_at(env, c, q, e.time)
                if not close(e.context_pre.weights.get(c, 0.0), q * p0 * c.multiplier / pre):
                    msgs.append("entry %d: recorded PRE-trade weight of %s is %r, ledger %r"
                                % (k, c, e.context_pre.weights.get(c, 0.0), q * p0 * c.multiplier / pre))
                if not close(e.context_pre.margins.get(c, 0.0), c.margin_requirement * c.multiplier * abs(q) * p0):
                    msgs.append("entry %d: recorded PRE-trade margin of %s is %r, ledger %r"
                                % (k, c, e.context_pre.margins.get(c, 0.0), c.margin_requirement * c.multiplier * abs(q) * p0))
        # each snapshot must be internally consistent: recorded cash + margins + fully-paid values = recorded NLV
        for tag, ctx in (("PRE", e.context_pre), ("POST", e.context_post)):
            cashv = sum(float(v) for c, v in ctx.nr_contracts.items() if isinstance(c, Cash))
            tot = cashv + sum(float(v) for v in ctx.margins.values())
            for c, v in ctx.nr_contracts.items():
                if not isinstance(c, Cash) and v != 0 and c.cash_requirement == 1.0:
                    pr = liq_at(env, c, v, e.time)
                    tot += float(v) * pr * c.multiplier
            if not close(tot, ctx.nlv):
                msgs.append("entry %d: %s-trade snapshot is inconsistent: cash %r + margins + fully-paid values = %r but NLV %r"
                            % (k, tag, cashv, tot, float(ctx.nlv)))
        pre_held = {c for c, v in e.context_pre.nr_contracts.items() if v != 0 and not isinstance(c, Cash)}
        ghost_pre = [c for c in pre_held if abs(led.pos.get(c, [0.0])[0]) < 1e-12]
        if ghost_pre:
            msgs.append("entry %d: PRE-trade snapshot holds %r, which the account did not hold before this entry's trades" % (k, ghost_pre))
        spread_cost = 0.0
        comm = 0.0
        frozen.append((e.time, float(e.context_pre.nlv), float(e.context_post.nlv), float(e.profit_on_idle_cash),
                       tuple(sorted((str(c), float(v)) for c, v in e.context_pre.nr_contracts.items())),
                       tuple(sorted((str(c), float(v)) for c, v in e.context_post.nr_contracts.items())),
                       tuple(sorted((str(c), float(v)) for c, v in e.context_post.weights.items())),
                       tuple((str(t.contract), float(t.quantity), float(t.acq_price), float(t.cost_of_commissions)) for t in e.trades),
                       tuple(sorted((str(c), float(v)) for c, v in e.context_pre.margins.items() if v != 0)),
                       tuple(sorted((str(c), float(v)) for c, v in e.context_post.margins.items() if v != 0)),
                       tuple(sorted((str(c), float(v)) for c, v in e.context_pre.values.items()))))
        for t in e.trades:
            if t.contract.static_hashing() is not t.contract or len(t.contract.underlyings) != 1:
                msgs.append("entry %d records a trade under the composite contract %r instead of the traded contract" % (k, t.contract))
            q, B = led.pos.get(t.contract, [0.0, 0.0])
            led.pos[t.contract] = [q + t.quantity, B + t.quantity * t.acq_price]
            led.K += t.cost_of_commissions
            comm += t.cost_of_commissions
            spread_cost += abs(t.quantity) * t.contract.multiplier * (t.ask_price - t.bid_price)
            if t.time != e.time:
                msgs.append("entry %d: trade stamped %s inside a rebalance stamped %s" % (k, t.time, e.time))
        post = led.nlv(env, e.time)
        if post is None or not close(e.context_post.nlv, post):
            msgs.append("entry %d: recorded post-trade NLV %r, ledger %r" % (k, e.context_post.nlv, post))
        for c, (q, B) in led.pos.items():
            if not close(e.context_post.nr_contracts.get(c, 0.0), q):
                msgs.append("entry %d: recorded holding of %s is %r, ledger %r" % (k, c, e.context_post.nr_contracts.get(c, 0.0), q))
            p = liq_at(env, c, q, e.time) if abs(q) > 1e-12 else 0.0
            if post:
                w = q * p * c.multiplier / post
                if not close(e.context_post.weights.get(c, 0.0), w):
                    msgs.append("entry %d: recorded weight of %s is %r, ledger %r" % (k, c, e.context_post.weights.get(c, 0.0), w))
            m = c.margin_requirement * c.multiplier * abs(q) * p
            if not close(e.context_post.margins.get(c, 0.0), m):
                msgs.append("entry %d: recorded margin of %s is %r, ledger %r" % (k, c, e.context_post.margins.get(c, 0.0), m))
        held = {c for c, v in e.context_post.nr_contracts.items() if v != 0 and not isinstance(c, Cash)}
        ghost = [c for c in held if abs(led.pos.get(c, [0.0])[0]) < 1e-12]
        if ghost:
            msgs.append("entry %d: recorded holdings %r have no recorded trades" % (k, ghost))
        # --- reward
        now_nlv = led.nlv(env, env.now())
        if now_nlv is not None and pre:
            er = expected_reward(reward, now_nlv, pre)
            if not close(r, er):
                msgs.append("step %d: reward %r, expected %s(%r, %r) = %r" % (k, r, reward, now_nlv, pre, er))
        rewards.append(r)
        if k == 1:
            # the reporting tables are also read in the middle of the episode (a monitoring hook): reading must not freeze them
            try:
                tr.net_liquidation_value()
                tr.net_liquidation_value(before_rebalancing=False)
                tr.transaction_costs()
                tr.weights_actual()
                tr.weights_target()
            except Exception as ex:
                msgs.append("reading the reporting tables after decision %d raised %r" % (k, ex))
        # --- frames
        if msgs:
            return msgs
        if done:
            break
    # old entries must still say what they said when they were recorded (no aliasing with later snapshots)
    for j, fz_ in enumerate(frozen):
        e = tr[j]
        now_ = (e.time, float(e.context_pre.nlv), float(e.context_post.nlv), float(e.profit_on_idle_cash),
                tuple(sorted((str(c), float(v)) for c, v in e.context_pre.nr_contracts.items())),
                tuple(sorted((str(c), float(v)) for c, v in e.context_post.nr_contracts.items())),
                tuple(sorted((str(c), float(v)) for c, v in e.context_post.weights.items())),
                tuple((str(t.contract), float(t.quantity), float(t.acq_price), float(t.cost_of_commissions)) for t in e.trades),
                tuple(sorted((str(c), float(v)) for c, v in e.context_pre.margins.items() if v != 0)),
                tuple(sorted((str(c), float(v)) for c, v in e.context_post.margins.items() if v != 0)),
                tuple(sorted((str(c), float(v)) for c, v in e.context_pre.values.items())))
        if now_ != fz_:
            diff = [i for i, (a, b) in enumerate(zip(now_, fz_)) if a != b]
            msgs.append("track-record entry %d changed after it was recorded (fields %s): %r -> %r" % (j, diff, [fz_[i] for i in diff][:1], [now_[i] for i in diff][:1]))
            break
    # a COPY of the record (copy.deepcopy, or pickle as TrackRecord.save / load do) must report what the live record reports
    if frozen and not msgs:
        import copy
        import pickle
        for how, clone in (("copy.deepcopy", lambda: copy.deepcopy(tr)), ("pickle round-trip", lambda: pickle.loads(pickle.dumps(tr)))):
            try:
                tc_ = clone()
                for j, fz_ in enumerate(frozen):
                    e = tc_[j]
                    now_ = (e.time, float(e.context_pre.nlv), float(e.context_post.nlv), float(e.profit_on_idle_cash),
                            tuple((str(t.contract), float(t.quantity), float(t.acq_price), float(t.cost_of_commissions)) for t in e.trades))
                    was_ = (fz_[0], fz_[1], fz_[2], fz_[3], fz_[7])
                    if now_ != was_:
                        msgs.append("a %s of the track record reports %r for entry %d, the live record %r" % (how, now_, j, was_))
                        break
                if not msgs and len(tc_) == len(tr) and len(tr):
                    a_, b_ = tc_.transaction_costs(cumulative=False), tr.transaction_costs(cumulative=False)
                    if not np.allclose(a_.values.astype(float), b_.values.astype(float), rtol=1e-12, atol=0, equal_nan=True):
                        msgs.append("transaction_costs() of a %s of the track record differs from the live record's" % how)
            except Exception as ex:
                msgs.append("a %s of the track record raised %r" % (how, ex))
    try:
        f_pre = tr.net_liquidation_value(before_rebalancing=True)
        f_post = tr.net_liquidation_value(before_rebalancing=False)
        tc = tr.transaction_costs(cumulative=False)
        for k in range(len(tr)):
            e = tr[k]
            if not (close(f_pre.iloc[k, 0], e.context_pre.nlv) and close(f_post.iloc[k, 0], e.context_post.nlv)
                    and f_pre.index[k] == e.time):
                msgs.append("net_liquidation_value() frame row %d differs from the entry" % k)
            if not (close(tc["Profit on idle Cash"].iloc[k], e.profit_on_idle_cash)
                    and close(tc["Broker fees"].iloc[k], sum(t.cost_of_commissions for t in e.trades))
                    and close(tc["Spread"].iloc[k], sum(abs(t.quantity) * t.contract.multiplier * (t.ask_price - t.bid_price) for t in e.trades))):
                msgs.append("transaction_costs() frame row %d differs from the entry" % k)
        if len(f_pre) != len(tr):
            msgs.append("frames have %d rows for %d entries" % (len(f_pre), len(tr)))
        # the weight tables (stored as float32): pre-trade, post-trade and target weights of every entry
        for nm, frame, pick in (("weights_actual(before_rebalancing=True)", tr.weights_actual(before_rebalancing=True), lambda e: e.context_pre.weights),
                                ("weights_actual(before_rebalancing=False)", tr.weights_actual(before_rebalancing=False), lambda e: e.context_post.weights),
                                ("weights_target()", tr.weights_target(), lambda e: e.allocation)):
            if len(frame) != len(tr):
                msgs.append("%s has %d rows for %d entries" % (nm, len(frame), len(tr)))
                continue
            for k in range(len(tr)):
                for c, w in pick(tr[k]).items():
                    got = frame.iloc[k][c] if c in frame.columns else float("nan")
                    if not (abs(float(got) - float(w)) <= 1e-5 * max(1.0, abs(float(w)))):
                        msgs.append("%s row %d reports %r for %s, the entry holds %r" % (nm, k, float(got), c, float(w)))
                        break
        # burn=True discards the INITIAL entries without trades (cash-only start) and nothing else
        lead = 0
        while lead < len(tr) and not tr[lead].trades:
            lead += 1
        want_times = [tr[k].time for k in range(lead, len(tr))]
        for nm, frame in (("net_liquidation_value", tr.net_liquidation_value(burn=True)), ("weights_target", tr.weights_target(burn=True)),
                          ("weights_actual", tr.weights_actual(burn=True)), ("transaction_costs", tr.transaction_costs(burn=True, cumulative=False))):
            if [t for t in frame.index] != want_times:
                msgs.append("%s(burn=True) keeps %d rows, but %d entries follow the initial %d entries without trades"
                            % (nm, len(frame), len(want_times), lead))
        if want_times:
            cum = tr.transaction_costs(burn=True, cumulative=True)
            paid = sum(t.cost_of_commissions for k in range(len(tr)) for t in tr[k].trades)
            if not close(cum["Broker fees"].iloc[-1], paid):
                msgs.append("transaction_costs(burn=True) reports cumulative broker fees %r, the recorded trades paid %r" % (cum["Broker fees"].iloc[-1], paid))
    except Exception as ex:
        msgs.append("reporting frames raised %r" % (ex,))
    if reward == "simple" and not rates and not L and not msgs:
        final = led.nlv(env, env.now())
        prod = 1.0
        for r in rewards:
            prod *= 1 + r
        if not close(prod, final / cash):
            msgs.append("simple returns compound to %r but final NLV / initial NLV = %r" % (prod, final / cash))
    return msgs


# ---------------------------------------------------------------------------
# "exactly one entry per executed decision", judged from the ACCOUNT (positions before / after each call), not from the record:
# episodes on quotes whose ask is twice the bid, so that a leveraged decision can ruin the account by its own execution

KF_NOENTRY = "executed-decision-without-entry:own-execution-ruin"
OWN_ACTIONS = [3.0, -3.0, 0.5]


class FlatReward(AbstractReward):
    def calculate(self, env):
        return 0.0


def run_ownruin(cfg, seq):
    """returns list of (message, signature-or-None)"""
    _, r, delay, reward, nbars = cfg
    reset_clock()
    c = ETF("A")
    G = days(datetime(2021, 3, 1), nbars)
    quotes = [(64.0, 128.0 if i >= r - 1 else 64.0) for i in range(nbars)]
    tr_ = Transmitter(list(G))
    tr_.add_events([EventNBBO(g, c, b, a) for g, (b, a) in zip(G, quotes)])
    env = TradingEnv(BoxPortfolio([c], -3.0, 3.0), transmitter=tr_, steps_delay=delay, initial_cash=1024.0,
                     reward=FlatReward() if reward == "flat" else RewardSimpleReturn())
    env.reset()
    out = []
    rec = env.broker.track_record

    def account():
        h = env.broker.holdings_quantity
        return float(sum(v for k, v in h.items() if isinstance(k, Cash))), float(h.get(c, 0.0))

    for k, a in enumerate(seq):
        cash0, q0 = account()
        n0 = len(rec)
        exc = None
        try:
            env.step(np.array([OWN_ACTIONS[a]]))
        except Exception as ex:
            exc = ex
        cash1, q1 = account()
        added = len(rec) - n0
        bid, ask = quotes[k]
        if q1 != q0:
            worth = cash1 + q1 * (bid if q1 > 0 else ask)     # fully-paid contract: cash + position at its liquidation side
            if added != 1:
                out.append(("decision %d was executed (position %r -> %r, account then worth %r) and left %d track-record entries"
                            % (k, q0, q1, worth, added), KF_NOENTRY if (added == 0 and worth <= 0) else None))
            else:
                e = rec[-1]
                dq = sum(t.quantity for t in e.trades)
                if not close(dq, q1 - q0):
                    out.append(("decision %d moved the position by %r, its entry records trades of %r" % (k, q1 - q0, dq), None))
                if not close(e.context_post.nlv, worth):
                    out.append(("decision %d: recorded post-trade NLV %r, the account is worth %r" % (k, e.context_post.nlv, worth), None))
        elif added > 1:
            out.append(("call %d added %d track-record entries" % (k, added), None))
        if exc is not None:
            break
    return out


def units(tier):
    out = []
    nbars = 5 if tier == "quick" else 6
    for uni in ("spot+fut", "mult+es", "chain"):
        for L in (0, 30):
            for delay in (0, 1):
                for reward in REWARDS:
                    for rates, fees in ((False, False), (True, True)) if tier == "quick" else itertools.product((False, True), repeat=2):
                        if tier == "quick" and uni == "chain" and reward in ("log", "pnl") and L:
                            continue
                        out.append((uni, L, delay, reward, rates, fees, nbars))
    # contract-count targets with a fixed fee: float-dust trades
    for delay in (0, 1):
        out.append(("spot+fut:lots", 0, delay, "simple", False, True, 6))
    # a no-trade threshold: idle entries in the middle of an episode
    for delay in (0, 1):
        for reward in ("simple", "log"):
            out.append(("spot+fut:thr", 0, delay, reward, True, True, 6))
    # a state that values the account at every quote: valuations fall between the equally stamped quotes of one bar
    for uni in ("spot+fut:tick", "mult+es:tick"):
        for L in (0, 30):
            for delay in (0, 1):
                out.append((uni, L, delay, "simple", L == 30, L == 30, 5))
    # extreme single-step returns (|log return| > 2): rewards documented as unclipped must not be clipped
    for delay in (0, 1):
        for reward in REWARDS:
            out.append(("crash", 0, delay, reward, False, False, 6))
    for r in (1, 2, 3):
        for delay in (0, 1):
            for reward in ("flat", "simple"):
                out.append(("ownruin", r, delay, reward, 6))
    return out


def _work(chunk):
    out = {"evaluations": 0, "violations": [], "outcomes": set(), "nontrivial": 0}
    for cfg in chunk:
        if cfg[0] == "ownruin":
            for seq in itertools.product(range(len(OWN_ACTIONS)), repeat=cfg[4] - 2):
                try:
                    res = run_ownruin(cfg, seq)
                except Exception as ex:
                    res = [("harness: case raised %r" % (ex,), None)]
                out["evaluations"] += 1
                out["outcomes"].add(hash((cfg, seq, tuple(m for m, _ in res))))
                out["nontrivial"] += 1
                for m, sig in res:
                    out["violations"].append(({"cfg": list(cfg), "seq": list(seq), "prior": 0}, "config %s actions %s: %s" % (cfg, list(seq), m),
                                              ("ownruin", m.split(" ")[2], cfg[3]), sig))
            continue
        try:
            env, sink, cash = build(cfg)
        except Exception as ex:
            out["violations"].append(({"cfg": list(cfg), "seq": [], "prior": 0}, "building raised %r" % (ex,), ("build", cfg[0])))
            continue
        n = cfg[6] - 1
        for si, seq in enumerate(itertools.product(range(len(ACTIONS)), repeat=n)):
            msgs = run_sequence(env, sink, cash, cfg, seq)
            out["evaluations"] += 1
            tr = env.broker.track_record
            out["outcomes"].add(hash((cfg, tuple(float(tr[j].context_post.nlv) for j in range(len(tr))))))
            if any(tr[j].trades for j in range(len(tr))):
                out["nontrivial"] += 1
            if msgs:
                alone = replay({"cfg": list(cfg), "seq": list(seq), "prior": 0})
                prior = 0 if alone else si
                out["violations"].append(({"cfg": list(cfg), "seq": list(seq), "prior": prior},
                                          "config %s actions %s: %s" % (cfg, list(seq), "; ".join(msgs[:2])),
                                          (msgs[0].split(":")[0].split(" ")[0], msgs[0].split(" ")[2] if len(msgs[0].split(" ")) > 2 else "", cfg[0])))
                if len(out["violations"]) > 40:
                    return out
    return out


def run(tier, **kw):
    rep = Report("C07", tier, LEVEL)
    us = units(tier)
    outcomes = set()
    for r in pmap(_work, shard(us, 64)):
        rep.add("evaluations", r["evaluations"])
        rep.add("distinct_nontrivial_raw", r["nontrivial"])
        outcomes |= r["outcomes"]
        for v in r["violations"]:
            case, msg, group = v[:3]
            rep.violation(case, msg, sig=(v[3] if len(v) > 3 else None), group=group)
    rep.set("environments_built", len(us))
    rep.set("distinct_nontrivial", len(outcomes))
    rep.set("exhaustive", True)
    rep.set("rule", "one evaluation = one complete episode; enumerated: {ETF + user margined, multiplier-4 spot + ES-like, ETF + ES chain across a roll} x "
                    "latency {0, 30s with quotes inside/outside the window} x delay {0,1} x 4 rewards x {no frictions, spread+fees+markup+changing rate path} "
                    "x ALL 3^(bars-1) action sequences (environment reused via reset); plus 'one entry per executed decision' judged from the account itself "
                    "(positions before/after every call) on quotes with ask = 2 x bid, targets {+3, -3, 0.5}, all 3^4 sequences, delays 0/1, a valuing and a non-valuing reward; distinct_nontrivial = distinct (configuration, recorded NLV path) outcomes")
    rep.set("samples", [{"cfg": ["chain", 30, 1, "shaped", True, True, 5], "seq": [0, 1, 2, 0]}])
    rep.assumptions = ["the independent ledger reads only TrackRecord entries (time, profit_on_idle_cash, trades' quantity/acq_price/commission) and Exchange quote history",
                       "commission amounts themselves are checked by C01, interest amounts by C06"]
    return rep.finish(replay)


def replay(case, **kw):
    cfg = tuple(case["cfg"])
    if cfg[0] == "ownruin":
        from mcx.common import Known
        kn = Known()
        return [m for m, sig in run_ownruin(cfg, tuple(case["seq"])) if not (sig and kn.match("C07", sig))]
    try:
        env, sink, cash = build(cfg)
    except Exception as ex:
        return ["building raised %r" % (ex,)]
    if not case["seq"]:
        return []
    n = len(case["seq"])
    for si, seq in enumerate(itertools.product(range(len(ACTIONS)), repeat=n)):
        if si >= case.get("prior", 0):
            break
        run_sequence(env, sink, cash, cfg, seq)
    return run_sequence(env, sink, cash, cfg, tuple(case["seq"]))


def probe():
    cfg = ("chain", 30, 1, "shaped", True, True, 5)
    env, sink, cash = build(cfg)
    m = run_sequence(env, sink, cash, cfg, (0, 1, 2, 0))
    tr = env.broker.track_record
    return repr(m) + repr([float(tr[j].context_post.nlv).hex() for j in range(len(tr))])

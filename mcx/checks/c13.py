"""C13 missing prices fail loudly; a rebalance is all-or-nothing.

Fault enumeration: every broker state of the ledger search x every assignment of
a quote-loss fault {bid NaN, ask NaN, both NaN, discontinued} to the two traded
contracts (plus a third, never-quoted contract) x {valuation, weights,
rebalance to each target of a menu}."""
import itertools
import math
from mcx import ledger
from mcx.ledger import *  # noqa
from mcx.ref import rebal
from mcx.common import Report, pmap

LEVEL = "fault_enumeration"
FAULTS = ["none", "bid", "ask", "both", "dead"]
Z = UC("Z", 1.0, 1.0, 0.0)   # never quoted
# (measure, allocation over (X, Y, Z))
TARGETS = [("weight", (0.5, 0.25, 0.0)), ("weight", (-0.5, 0.0, 0.0)), ("weight", (0.0, -0.25, 0.0)),
           ("weight", (0.0, 0.0, 0.0)), ("weight", (0.25, 0.25, 0.25)), ("nr-contracts", (1.0, -1.0, 0.0)),
           ("nr-contracts", (0.0, 2.0, 0.0)), ("nr-contracts", (0.0, 0.0, -1.0))]
NAN = float("nan")
# fault assignments that also discontinue the third contract before it was ever quoted (and quote it afterwards)
ZFAULTS = [("none", "none", "deadfirst"), ("none", "bid", "deadfirst"), ("dead", "none", "deadfirst")]


def inject(b, c, fault, t, requote=True):
    book = b.exchange[c]
    bid, ask = book.bid_price, book.ask_price
    if fault == "bid":
        b.exchange.process_EventNBBO(EventNBBO(t, c, NAN, ask))
    elif fault == "ask":
        b.exchange.process_EventNBBO(EventNBBO(t, c, bid, NAN))
    elif fault == "both":
        b.exchange.process_EventNBBO(EventNBBO(t, c, NAN, NAN))
    elif fault == "dead":
        b.exchange.process_EventContractDiscontinued(EventContractDiscontinued(t, c))
        # a dead book must stay dead under later quotes
        if requote:
            b.exchange.process_EventNBBO(EventNBBO(t, c, bid, ask))


def has(x):
    return not (isinstance(x, float) and math.isnan(x)) and x == x


def liq_missing(b, ref, c):
    q = ref.qty(c)
    if q == 0:
        return False
    book = b.exchange[c]
    return not has(book.bid_price if q > 0 else book.ask_price)


def equity(b):
    return b._holdings_quantity[b.base_currency] + sum(b._holdings_margins.values())


def positions(b):
    return {str(k): float(v) for k, v in b._holdings_quantity.items() if not isinstance(k, Cash) and v != 0}


def tr_view(tr):
    """what the track record shows through its public container interface"""
    out = [len(tr)]
    for i in list(range(len(tr))) + [-1, len(tr)]:
        try:
            out.append(id(tr[i]))
        except Exception as ex:
            out.append(type(ex).__name__)
    return out


def probe_state(sb, ref, cs, fee, faults):
    """All probes for one (state, fault assignment).  Returns list of (probe, messages, nontrivial)."""
    out = []
    allc = list(cs) + [Z]
    t = T0 + timedelta(hours=1)

    zfault = faults[2] if len(faults) > 2 else "never"
    faults = tuple(faults[:2])

    def fresh():
        b = unsnap(sb)
        for c, f in zip(cs, faults):
            inject(b, c, f, t)
        if zfault == "deadfirst":
            # the third contract is discontinued BEFORE it was ever quoted or looked up, then quoted: it must stay without a price
            b.exchange.process_EventContractDiscontinued(EventContractDiscontinued(t, Z))
            b.exchange.process_EventNBBO(EventNBBO(t, Z, 63.0, 65.0))
        return b

    b = fresh()
    msgs = []
    # dead stays dead
    for c, f in zip(cs, faults):
        book = b.exchange[c]
        if f == "dead" and (has(book.bid_price) or has(book.ask_price) or book.is_alive):
            msgs.append("discontinued contract %s shows %r/%r after a later quote" % (c.symbol, book.bid_price, book.ask_price))
    if zfault == "deadfirst":
        book = b.exchange[Z]
        if has(book.bid_price) or has(book.ask_price) or book.is_alive:
            msgs.append("contract Z, discontinued before its first quote, shows %r/%r after a later quote" % (book.bid_price, book.ask_price))
    val_impossible = any(liq_missing(b, ref, c) for c in cs)
    exp_nlv = None if val_impossible else ref.nlv(b.exchange, cs)
    # ---- valuation
    try:
        got = b.net_liquidation_value(False)
        if val_impossible:
            msgs.append("valuation returned %r although a non-zero position has no liquidation quote (faults %s)" % (got, faults))
        elif not math.isfinite(float(got)):
            # the AMOUNT of a possible valuation is C01's subject; here only that it is a number
            msgs.append("valuation returned %r although every non-zero position has its liquidation quote (faults %s)" % (got, faults))
    except Exception as ex:
        if not val_impossible:
            msgs.append("valuation raised %r although every non-zero position has its liquidation quote (faults %s)" % (ex, faults))
    out.append(("valuation", msgs, val_impossible))
    # ---- recovery: a valid quote after the NaN one restores a valuation that matches the ledger exactly
    if "dead" not in faults:
        msgs = []
        b = fresh()
        try:
            b.net_liquidation_value(False)      # may raise; a failed valuation in between must leave no trace either
        except Exception:
            pass
        for c, f in zip(cs, faults):
            if f != "none":
                book = unsnap(sb).exchange[c]
                b.exchange.process_EventNBBO(EventNBBO(t, c, book.bid_price * 1.0625, book.ask_price * 1.0625))
        try:
            got = b.net_liquidation_value(False)
            want = ref.nlv(b.exchange, cs)
            if not math.isfinite(float(got)):
                msgs.append("after the quote of %s recovered, valuation returns %r (ledger %r): the failed valuation left a trace" % (faults, got, float(want)))
        except Exception as ex:
            msgs.append("valuation after the quotes recovered raised %r" % (ex,))
        out.append(("recovery", msgs, True))
    # ---- weights
    msgs = []
    b = fresh()
    try:
        w = b.holdings_weights()
        if val_impossible:
            msgs.append("holdings_weights returned although a non-zero position has no liquidation quote")
        elif any(not has(float(v)) for v in w.values()):
            msgs.append("holdings_weights returned NaN: %r" % w)
    except EndOfEpisodeError:
        pass
    except Exception as ex:
        if not val_impossible:
            msgs.append("holdings_weights raised %r with all needed quotes present" % (ex,))
    out.append(("weights", msgs, val_impossible))
    # ---- rebalances
    variants = [(ta, mg, False) for ta, mg in itertools.product(TARGETS, (0.0, 0.015625))]
    if any(f != "none" for f in faults):
        # the request object is first PREVIEWED (make_trades) while every quote is still there, the quotes are lost afterwards
        # and the same object is then executed
        variants += [(ta, 0.0, True) for ta in TARGETS]
    for (measure, alloc), margin, preview in variants:
        msgs = []
        rb_preview = None
        if preview:
            b = unsnap(sb)
            rb_preview = Rebalancing(contracts=allc, allocation=list(alloc), measure=measure, time=T0 + timedelta(days=1), margin=margin)
            try:
                rb_preview.make_trades(b)
            except Exception:
                pass
            for c, f in zip(cs, faults):
                # the loss carries the SAME timestamp as the quotes it replaces, and a discontinuation is not followed by any quote
                inject(b, c, f, T0, requote=False)
        else:
            b = fresh()
        pre_pos = positions(b)
        pre_len = len(b.track_record)
        pre_view = tr_view(b.track_record)
        pre_equity = equity(b)
        bm = fresh()
        try:
            bm.marking_to_market()
            pre_equity_marked = equity(bm)
        except Exception:
            pre_equity_marked = pre_equity
        must, may = val_impossible, val_impossible
        soft = False       # a required side is missing but the other side is quoted
        if not val_impossible:
            nlv = exp_nlv
            for c, a in zip(allc, alloc):
                book = b.exchange[c]
                held = ref.qty(c)
                if measure == "weight":
                    if Fr(a) != 0:
                        px = book.ask_price if a > 0 else book.bid_price
                        if not has(px):
                            must = True
                            soft = soft or has(book.ask_price) or has(book.bid_price)
                            continue
                        tgt = Fr(a) * nlv / Fr(px) / Fr(c.multiplier)
                    else:
                        tgt = Fr(0)
                else:
                    tgt = Fr(a)
                imb = tgt - held
                if abs(float(imb)) > 1e-9:
                    side = book.ask_price if imb > 0 else book.bid_price
                    if not has(side):
                        must = True
                        soft = soft or has(book.ask_price) or has(book.bid_price)
                    elif not (has(book.bid_price) and has(book.ask_price)):
                        may = True
        if margin and must and soft:
            # with a no-trade threshold an implementation may size the imbalance from the side that IS quoted and find it below the
            # threshold; only a contract without any quote cannot be sized at all
            must, may = False, True
        rb = rb_preview or Rebalancing(contracts=allc, allocation=list(alloc), measure=measure, time=T0 + timedelta(days=1), margin=margin)
        raised = None
        try:
            b.rebalance(rb)
        except EndOfEpisodeError as ex:
            raised = ex
            may = True
        except Exception as ex:
            raised = ex
        if raised is not None:
            if not (must or may):
                msgs.append("rebalance to %s %s (threshold %s) raised %r although no required quote is missing (faults %s)" % (measure, alloc, margin, raised, faults))
            if positions(b) != pre_pos:
                msgs.append("rebalance raised %r but positions changed from %r to %r" % (raised, pre_pos, positions(b)))
            if len(b.track_record) != pre_len:
                msgs.append("rebalance raised but the track record grew")
            elif tr_view(b.track_record) != pre_view:
                msgs.append("rebalance raised %r and the track record no longer reads as before (length, entries by index, last, one past the end): %r -> %r"
                            % (raised, pre_view, tr_view(b.track_record)))
            if not (fclose(equity(b), pre_equity) or fclose(equity(b), pre_equity_marked)):
                msgs.append("rebalance raised but cash+margins moved from %r (marked to market: %r) to %r"
                            % (pre_equity, pre_equity_marked, equity(b)))
        else:
            if must:
                msgs.append("rebalance to %s %s (threshold %s) returned although it needs a missing quote (faults %s); trades %r"
                            % (measure, alloc, margin, faults, [(str(t.contract), t.quantity) for t in rb.trades]))
            for tr in rb.trades:
                if not (has(tr.bid_price) and has(tr.ask_price) and has(tr.quantity) and has(tr.acq_price)):
                    msgs.append("executed trade with non-finite price/quantity: %r" % tr)
            nref = ref.copy()
            for tr in rb.trades:
                if msgs:
                    break
                nref.trade(tr.contract, tr.quantity, tr.bid_price, tr.ask_price, fee[0], fee[1])
            try:
                if msgs:
                    raise StopIteration
                post = b.net_liquidation_value(False)
                exp_post = nref.nlv(b.exchange, allc)
                if exp_post is not None and not math.isfinite(float(post)):
                    msgs.append("after the rebalance NLV %r (ledger %r)" % (post, float(exp_post)))
            except StopIteration:
                pass
            except Exception as ex:
                msgs.append("valuation after a successful rebalance raised %r" % (ex,))
        out.append(("rebalance:%s:%s%s%s" % (measure, alloc, ":thr" if margin else "", ":preview" if preview else ""), msgs, must or raised is not None))
    return out


def sources(tier):
    scale, deposit = ledger.palette()
    q = ledger.quotes_of(scale)
    if tier == "quick":
        # the last source: brokers built with `epsilon=0` (no snapping of small residuals): a position closed to exactly zero is flat
        return [("spot1+fut", ledger.FEES[1], q, deposit, 2), ("fut+fut", ledger.FEES[0], q, deposit, 2), ("spot1+fut", ledger.FEES[0], q, deposit, 2, 0.0)]
    return [("spot1+fut", ledger.FEES[1], q, deposit, 3), ("fut+fut", ledger.FEES[0], q, deposit, 3),
            ("spot4+fut", ledger.FEES[4], q, deposit, 3), ("etf+es", ledger.FEES[5], q, deposit, 2), ("spot+spot", ledger.FEES[0], q, deposit, 3),
            ("spot1+fut", ledger.FEES[0], q, deposit, 3, 0.0), ("fut+fut", ledger.FEES[1], q, deposit, 2, 0.0)]


def _collect(src):
    universe, fee, quotes, deposit, depth = src[:5]
    ops = ledger.alphabet(with_rebalance=False, nquotes=len(quotes), marks=False)
    states, r = ledger.collect_states(universe, fee, depth, quotes, deposit, ops, epsilon=(src[5] if len(src) > 5 else None))
    return src, states, r["transitions"]


def _work(unit):
    src, chunk = unit
    universe, fee, quotes, deposit, depth = src[:5]
    cs = ledger.contracts_of(universe)
    reset_clock()
    out = {"evaluations": 0, "violations": [], "nontrivial": set(), "raised": 0}
    for sb, ref, hist in chunk:
        for faults in list(itertools.product(FAULTS, repeat=2)) + ZFAULTS:
            if faults == ("none", "none"):
                continue
            for probe, msgs, nontrivial in probe_state(sb, ref, cs, fee, faults):
                out["evaluations"] += 1
                if nontrivial:
                    out["nontrivial"].add(hash((universe, hist, faults, probe)))
                if msgs:
                    case = {"universe": universe, "fee": list(fee), "quotes": [list(q) for q in quotes], "deposit": deposit, "epsilon": (src[5] if len(src) > 5 else None),
                            "history": [list(o) for o in hist], "faults": list(faults), "probe": probe}
                    out["violations"].append((case, "; ".join(msgs[:3]), (probe.split(":")[0], msgs[0].split(" ")[0], msgs[0].split(" ")[1])))
    return out


def run(tier, **kw):
    rep = Report("C13", tier, LEVEL)
    units = []
    nstates = 0
    for src, states, trans in pmap(_collect, sources(tier)):
        nstates += len(states)
        n = 24
        for i in range(n):
            if states[i::n]:
                units.append((src, states[i::n]))
    nt = set()
    for r in pmap(_work, units):
        rep.add("evaluations", r["evaluations"])
        nt |= r["nontrivial"]
        for case, msg, group in r["violations"]:
            rep.violation(case, msg, group=group)
    from mcx.enumr import shard
    env_n = 0
    for r in pmap(_env_work, shard(list(env_cases(tier)), 32)):
        rep.add("evaluations", r["evaluations"])
        env_n += r["nontrivial"]
        for case, msg, group in r["violations"]:
            rep.violation(case, msg, group=group)
    rep.set("environment_level_episodes", env_n)
    rep.set("start_states", nstates)
    rep.set("distinct_nontrivial", len(nt) + env_n)
    rep.set("fault_kinds", FAULTS[1:])
    rep.set("exhaustive", True)
    rep.set("rule", "one evaluation = one probe (valuation | weights | rebalance, without and with a no-trade threshold, to one of 8 targets over the 2 traded contracts and a never-quoted third) "
                    "after injecting one of the 24 non-trivial fault assignments {none, bid NaN, ask NaN, both NaN, discontinued then re-quoted}^2 (plus 3 assignments in which the third contract is discontinued before its first quote and quoted afterwards) into a copy "
                    "of a reachable broker state; enumerated over every state of the ledger BFS within the depth bound; non-trivial = distinct probe in which "
                    "an error is required (a non-zero position lost its liquidation side, or a required trade lost its execution side) or was raised; "
                    "plus environment-level episodes in which the same faults arrive as events at bar k for a held long/short spot or margined position "
                    "(3 targets x 2 contracts x 4 fault kinds x follow-up policy x latency): TradingEnv.step must raise, not return a reward")
    rep.set("samples", [{"universe": "spot1+fut", "history": [["t", 1, -2.0]], "faults": ["none", "ask"], "probe": "valuation",
                         "expect": "short F with no ask: valuation must raise"}])
    rep.assumptions = ["'unchanged' after a failed rebalance = contract positions, track-record length and cash+margins (equal to its value before the call or "
                       "to its value after a plain mark-to-market, which the valuation preceding the trades performs); interest rate 0",
                       "a trade whose non-execution side is missing may or may not fail (Trade requires both sides; the statement requires only the needed side)"]
    return rep.finish(replay)


def replay(case, **kw):
    if case.get("part") == "env":
        c = case["case"]
        return run_env_case((tuple(c[0]),) + tuple(c[1:]))
    reset_clock()
    universe, fee = case["universe"], tuple(case["fee"])
    quotes = [tuple(q) for q in case["quotes"]]
    b, ref, cs = ledger.initial(universe, fee, quotes, case["deposit"], epsilon=case.get("epsilon"))
    for op in case["history"]:
        ref, _ = ledger.apply_op(b, ref, cs, tuple(op), quotes, fee)
    out = []
    for probe, msgs, _ in probe_state(snap(b), ref, cs, fee, tuple(case["faults"])):
        if probe == case["probe"]:
            out += msgs
    return out


def probe():
    reset_clock()
    q = ledger.quotes_of(1.0)
    b, ref, cs = ledger.initial("spot1+fut", (0.0, 0.0), q, 65536.0)
    ref, _ = ledger.apply_op(b, ref, cs, ("t", 1, -2.0), q, (0.0, 0.0))
    res = probe_state(snap(b), ref, cs, (0.0, 0.0), ("none", "ask"))
    return repr([(p, m) for p, m, _ in res])


# ---------------------------------------------------------------------------
# environment level: the same faults arriving as events in the middle of an episode

def env_cases(tier):
    import itertools as it
    targets = [(0.5, 0.25), (-0.5, 0.25), (0.5, -0.25), (0.5, 0.0), (0.0, 0.25)]
    after = ["hold", "exit", "other", "enter"]
    for tgt in targets:
        for ci in (0, 1):
            for kind in FAULTS[1:]:
                for k in ((2,) if tier == "quick" else (1, 2, 3)):
                    for a in after:
                        for latency in (0, 30):
                            yield (tgt, ci, kind, k, a, latency)


def run_env_case(case):
    """5-bar episode on [spot A, margined F]; from bar k on, contract ci's quotes carry the fault
    (or it is discontinued at bar k).  Returns messages."""
    from mcx import envh
    from tradingenv.env import TradingEnv
    from tradingenv.transmitter import Transmitter
    from tradingenv.spaces import BoxPortfolio
    tgt, ci, kind, k, after, latency = case
    reset_clock()
    A_ = spot("A", 1.0)
    F_ = fut("F", 2.0, 0.25)
    cs = [A_, F_]
    base = datetime(2020, 1, 6, 10, 0, 0)
    G = [base + timedelta(minutes=i) for i in range(5)]
    evs = []
    for i, g in enumerate(G):
        for j, c in enumerate(cs):
            bid, ask = 64.0 + 4 * i + 32 * j, 66.0 + 4 * i + 32 * j
            if j == ci and i >= k:
                if kind == "dead":
                    if i == k:
                        evs.append(EventContractDiscontinued(g, c))
                    continue
                if kind in ("bid", "both"):
                    bid = NAN
                if kind in ("ask", "both"):
                    ask = NAN
            evs.append(EventNBBO(g, c, bid, ask))
    tr = Transmitter(list(G))
    tr.add_events(evs)
    env = TradingEnv(BoxPortfolio(cs, -1.0, 1.0), transmitter=tr, initial_cash=65536.0, latency=latency)
    env.reset()
    msgs = []
    faulted = cs[ci]
    for step in range(1, 5):
        if step == 1:
            action = np.array(tgt)
        elif after == "hold":
            action = np.array(tgt)
        elif after == "exit":
            action = np.array([0.0 if j == ci else tgt[j] for j in range(2)])
        elif after == "enter":
            # a NEW position in the faulted contract is requested once the fault is present (it is flat until then
            # when the initial target gives it no weight)
            action = np.array([0.25 if (j == ci and step > k) else tgt[j] for j in range(2)])
        else:
            action = np.array([tgt[j] if j == ci else tgt[j] / 2 for j in range(2)])
        b = env.broker
        q = b._holdings_quantity.get(faulted, 0.0)
        book = env.exchange[faulted]
        pre_pos = positions(b)
        pre_len = len(b.track_record)
        # state of the faulted book at decision time (events of the previous bar have been processed)
        liq_gone = (q > 0 and not has(book.bid_price)) or (q < 0 and not has(book.ask_price))
        any_gone = not (has(book.bid_price) and has(book.ask_price))
        # a trade the decision requires in the faulted contract whose EXECUTION side is missing: buying needs the ask
        w_req = float(action[ci])
        need_buy = (q == 0 and w_req > 0)
        exec_gone = need_buy and not has(book.ask_price)
        try:
            o, r, d, info = env.step(action)
            raised = None
        except Exception as ex:
            raised = ex
        if exec_gone and not liq_gone:
            if raised is None:
                msgs.append("step %d returned (done=%r) although the decision opens a position in %s, whose ask is missing"
                            % (step, d, faulted.symbol))
            if positions(b) != pre_pos or len(b.track_record) != pre_len:
                msgs.append("step %d needed a missing quote but positions/track record changed: %r -> %r" % (step, pre_pos, positions(b)))
            break
        if liq_gone:
            if raised is None:
                msgs.append("step %d returned (reward %r) although the %s position in %s has no liquidation quote"
                            % (step, r, "long" if q > 0 else "short", faulted.symbol))
            if positions(b) != pre_pos or len(b.track_record) != pre_len:
                msgs.append("step %d failed on a missing quote but positions/track record changed: %r -> %r" % (step, pre_pos, positions(b)))
            break
        if raised is not None:
            # allowed when the fault is present in any form at decision time, or arrives during this very step
            arrives_now = step >= k
            if not (any_gone or arrives_now):
                msgs.append("step %d raised %r although every quote is present" % (step, raised))
            if isinstance(raised, EndOfEpisodeError):
                pass
            break
        q2 = b._holdings_quantity.get(faulted, 0.0)
        if (q2 > 0 and not has(book.bid_price)) or (q2 < 0 and not has(book.ask_price)):
            # the fault arrived during this step, after the execution: the reward is a valuation and cannot exist
            msgs.append("step %d returned reward %r although at the end of the step the %s position in %s has no liquidation quote"
                        % (step, r, "long" if q2 > 0 else "short", faulted.symbol))
            break
        if not (r == r):
            msgs.append("step %d returned a NaN reward" % step)
        try:
            v = b.net_liquidation_value(False)
            if not (v == v):
                msgs.append("NLV is NaN after step %d" % step)
        except Exception:
            pass
        if d:
            break
    return msgs


def _env_work(chunk):
    out = {"evaluations": 0, "violations": [], "nontrivial": 0}
    for case in chunk:
        try:
            msgs = run_env_case(case)
        except Exception as ex:
            msgs = ["harness raised %r" % (ex,)]
        out["evaluations"] += 1
        out["nontrivial"] += 1
        if msgs:
            out["violations"].append(({"part": "env", "case": [list(case[0])] + list(case[1:])}, "environment level %s: %s" % (case, "; ".join(msgs[:2])),
                                      ("env", msgs[0].split(" ")[2] if len(msgs[0].split(" ")) > 2 else "", case[2])))
    return out

"""C16 performance metrics equal their definitions and are scale-invariant.

Small-scope exhaustive: ALL level series of length 2..4/5 over a 6-value
alphabet x index shapes x Series/DataFrame x risk-free/benchmark variants against
a pure-Python reference; every single-defect corruption must be rejected."""
import itertools
import math
import warnings
from mcx.common import setup_path, Report, pmap
setup_path()
import numpy as np
import pandas as pd
import tradingenv.metrics  # installs the pandas methods
from tradingenv.broker.track_record import TrackRecord
from mcx.enumr import shard

warnings.simplefilter("ignore")
LEVEL = "exploration"
ALPHA = [1.0, 2.0, 4.0, 3.0, 1.5, 0.75]
BASE = pd.Timestamp("2020-01-06 10:00")
SHAPES = {
    "daily": lambda n: [BASE + pd.Timedelta(days=i) for i in range(n)],
    "weekend": lambda n: [BASE + pd.Timedelta(days=d) for d in (0, 1, 4, 7, 8)[:n]],
    "intraday": lambda n: [BASE + pd.Timedelta(hours=h) for h in (0, 3, 24, 27, 48)[:n]],
    "month": lambda n: [BASE + pd.Timedelta(days=d) for d in (0, 31, 59, 90, 120)[:n]],
    # timezone-aware intraday stamps whose UTC date differs from their local date (08:00 in Tokyo is 23:00 UTC of the day before):
    # the level of a day is the last observation of the LOCAL day
    "tokyo": lambda n: [pd.Timestamp("2020-01-06 08:00", tz="Asia/Tokyo") + pd.Timedelta(hours=h) for h in (0, 7, 24, 31, 48)[:n]],
    # intraday record that starts at a close (16:00) and ends at an open (09:30): whole days elapsed != calendar dates spanned
    "closeopen": lambda n: [BASE + pd.Timedelta(hours=6) + pd.Timedelta(minutes=m) for m in (0, 1050, 1440, 2490, 3930)[:n]],
    "mixed": lambda n: [BASE + pd.Timedelta(hours=h) for h in (0, 24 * 3, 24 * 3 + 2, 24 * 40, 24 * 40 + 5)[:n]],
}
def _bdays(n):
    out, d = [], BASE
    while len(out) < n:
        if d.weekday() < 5:
            out.append(d)
        d += pd.Timedelta(days=1)
    return out


# shapes of ANY length (long records): business days, and three stamps per business day collapsing to the day's last level
SHAPES["bdays"] = _bdays
SHAPES["ticks3"] = lambda n: [d + pd.Timedelta(hours=h) for d in _bdays((n + 2) // 3) for h in (0, 3, 6)][:n]
RATIOS = [2.0, 0.5, 1.0, 1.5, 2.0 / 3.0]


def long_levels(pattern, n):
    """levels of a long record: start 3, then multiply by the ratios of `pattern` cyclically (ties, runs, new highs, deep drawdowns)"""
    v, out = 3.0, []
    for i in range(n):
        out.append(v)
        r = RATIOS[pattern[i % len(pattern)]]
        if not (3.0 * 2.0 ** -12 <= v * r <= 3.0 * 2.0 ** 12):
            r = 1.0 / r         # reflect at the band edges: levels stay within 3 x 2^+-12 (no drawdown saturating at -1 in floats)
        v *= r
    return tuple(out)


METRICS = ["cagr", "volatility", "max_drawdown", "value_at_risk", "expected_shortfall", "downside_volatility",
           "upside_volatility", "martin_risk", "sharpe_ratio", "sortino_ratio", "calmar_ratio", "martin_ratio"]
SERIES_METRICS = ["simple_returns", "log_returns", "drawdown"]
RF = 0.03


def std1(x):
    n = len(x)
    if n < 2:
        return float("nan")
    m = sum(x) / n
    return math.sqrt(sum((v - m) ** 2 for v in x) / (n - 1))


def quantile(x, q):
    x = sorted(x)
    n = len(x)
    if n == 0:
        return float("nan")
    h = (n - 1) * q
    lo, hi = math.floor(h), math.ceil(h)
    return x[lo] + (x[hi] - x[lo]) * (h - lo)


def mean(x):
    return sum(x) / len(x) if x else float("nan")


def daily_levels(vals, stamps):
    days = {}
    for v, t in zip(vals, stamps):
        days[t.date()] = v
    return [days[d] for d in sorted(days)], sorted(days)


def ref_metrics(vals, stamps, rf=0.0):
    lv, dates = daily_levels(vals, stamps)
    rets = [b / a - 1 for a, b in zip(lv, lv[1:])]
    years = (stamps[-1] - stamps[0]).days / 365
    out = {}
    out["cagr"] = (lv[-1] / lv[0]) ** (1 / years) - 1
    out["volatility"] = math.sqrt(252) * std1(rets)
    peak, dd = -1.0, []
    for v in lv:
        peak = max(peak, v)
        dd.append(v / peak - 1)
    out["max_drawdown"] = min(dd)
    out["value_at_risk"] = quantile(rets, 0.025)
    out["expected_shortfall"] = mean([r for r in rets if r <= out["value_at_risk"]])
    out["downside_volatility"] = math.sqrt(252) * std1([r for r in rets if r < 0])
    out["upside_volatility"] = math.sqrt(252) * std1([r for r in rets if r > 0])
    out["martin_risk"] = math.sqrt(mean([d * d for d in dd]))
    ex = out["cagr"] - rf
    out["sharpe_ratio"] = (ex, out["volatility"])
    out["sortino_ratio"] = (ex, out["downside_volatility"])
    out["calmar_ratio"] = (ex, -out["max_drawdown"])
    out["martin_ratio"] = (ex, out["martin_risk"])
    return out, rets, dd, lv


def eq(a, b, tol=1e-9):
    a, b = float(a), float(b)
    if math.isnan(a) or math.isnan(b):
        return math.isnan(a) and math.isnan(b)
    if math.isinf(a) or math.isinf(b):
        return a == b
    return abs(a - b) <= tol * max(1.0, abs(a), abs(b))


def ratio_ok(got, num, den):
    """ratio metrics: where the textbook value is undefined (zero / undefined denominator)
    only a non-finite result is required"""
    got = float(got)
    if (math.isnan(den) or den == 0) and LONG[0]:
        return True     # long record: the implementation's zero denominator carries rounding noise (std of many equal returns)
    if math.isnan(den) or den == 0:
        return not math.isfinite(got)
    if abs(den) < 1e-9:
        return True     # a denominator that is zero up to rounding noise (equal returns in a long record): undefined, nothing required
    return eq(got, num / den)


SCALES = [(2.0, 0.5, 1024.0, 3.0, 0.1, 2.0 ** -30, 2.0 ** 40)]     # incl. levels of the order of 1e-9 and 1e12
LONG = [False]


def check_series(vals, shape, scale_checks=True):
    """All metric comparisons for one valid level series; returns messages."""
    n = len(vals)
    LONG[0] = n > 8
    stamps = SHAPES[shape](n)
    msgs = []
    s = pd.Series(list(vals), index=pd.DatetimeIndex(stamps), name="lvl")
    ref, rets, dd, lv = ref_metrics(vals, stamps)
    ref_rf, _, _, _ = ref_metrics(vals, stamps, RF)

    def compare(obj, pick, tag, refd):
        for k in METRICS:
            want = refd[k]
            try:
                if k.endswith("_ratio") and refd is ref_rf:
                    got = pick(getattr(obj, k)(RF))
                else:
                    got = pick(getattr(obj, k)())
            except Exception as ex:
                msgs.append("%s %s raised %r on valid levels %s (%s)" % (tag, k, ex, list(vals), shape))
                continue
            ok = ratio_ok(got, *want) if isinstance(want, tuple) else eq(got, want)
            if not ok:
                msgs.append("%s %s = %r, definition gives %r for levels %s (%s index)"
                            % (tag, k, float(got), (want[0] / want[1] if isinstance(want, tuple) and want[1] else want), list(vals), shape))
    compare(s, lambda x: x, "Series", ref)
    compare(s, lambda x: x, "Series(rf=0.03)", ref_rf)
    # VaR / expected shortfall at other (dyadic: exact order-statistic positions) quantile levels - with ties among the returns the
    # tail "at or below the VaR" contains every return equal to it
    if rets:
        df1 = s.to_frame("a")
        for q in (0.25, 0.5, 0.75, 1.0):
            var = quantile(rets, q)
            es = mean([r for r in rets if r <= var])
            for tag, obj, pick in (("Series", s, lambda x: x), ("DataFrame", df1, lambda x: x["a"])):
                try:
                    gv, ge = pick(obj.value_at_risk(q)), pick(obj.expected_shortfall(q))
                except Exception as ex:
                    msgs.append("%s value_at_risk/expected_shortfall(%s) raised %r on %s (%s)" % (tag, q, ex, list(vals), shape))
                    continue
                if not eq(gv, var):
                    msgs.append("%s value_at_risk(%s) = %r, definition gives %r for levels %s (%s)" % (tag, q, float(gv), var, list(vals), shape))
                if not eq(ge, es):
                    msgs.append("%s expected_shortfall(%s) = %r but the mean of the returns <= VaR (%r) is %r for levels %s (%s)"
                                % (tag, q, float(ge), var, es, list(vals), shape))
    # series-valued metrics
    try:
        sr = list(s.simple_returns())
        lr = list(s.log_returns())
        d = list(s.drawdown())
        if len(sr) != len(rets) or any(not eq(a, b) for a, b in zip(sr, rets)):
            msgs.append("simple_returns = %r, expected %r for levels %s (%s)" % (sr, rets, list(vals), shape))
        if len(lr) != len(rets) or any(not eq(a, math.log(1 + b)) for a, b in zip(lr, rets)):
            msgs.append("log_returns = %r for levels %s (%s)" % (lr, list(vals), shape))
        if len(d) != len(dd) or any(not eq(a, b) for a, b in zip(d, dd)):
            msgs.append("drawdown = %r, expected %r for levels %s (%s)" % (d, dd, list(vals), shape))
        if any(not (-1 < x <= 0) for x in d):
            msgs.append("drawdown outside (-1, 0]: %r" % d)
        run = -1.0
        for x, v in zip(d, lv):
            if v >= run and x != 0:
                msgs.append("drawdown %r at a running high" % x)
            run = max(run, v)
    except Exception as ex:
        msgs.append("series-valued metric raised %r on %s (%s)" % (ex, list(vals), shape))
    # tracking error against a benchmark that ENDS one observation earlier (published with a lag): only the dates on
    # which both have a return count - a perfect tracker keeps a tracking error of zero
    try:
        if not msgs and len(rets) >= 3 and shape in ("daily", "weekend", "month"):
            for tag, bv in (("itself", list(vals)), ("the reversed series", list(vals)[::-1])):
                bshort = pd.Series(bv[:-1], index=pd.DatetimeIndex(stamps[:-1]), name="lagged")
                rb3 = [b / a - 1 for a, b in zip(bv[:-1], bv[1:-1])]
                want = math.sqrt(252) * std1([a - b for a, b in zip(rets[:-1], rb3)])
                got = s.tracking_error(bshort)
                if not eq(got, want):
                    msgs.append("tracking_error against %s ending one date earlier = %r, over the common dates it is %r (%s, %s)"
                                % (tag, float(got), want, list(vals), shape))
    except Exception as ex:
        msgs.append("tracking_error (benchmark ending earlier) raised %r" % (ex,))
    # DataFrame with a second (reversed) column
    if not msgs and not (n >= (4 if len(SCALES[0]) == 3 else 5)):
        rv = list(vals)[::-1]
        df = pd.DataFrame({"a": list(vals), "b": rv}, index=pd.DatetimeIndex(stamps))
        refb, _, _, _ = ref_metrics(rv, stamps)
        for col, refd in (("a", ref), ("b", refb)):
            compare(df, lambda x, col=col: x[col], "DataFrame[%s]" % col, refd)
        # risk-free given as a level series
        rfs = pd.Series([100.0 * (1 + 0.0001) ** i for i in range(n)], index=pd.DatetimeIndex(stamps), name="rf")
        try:
            rf_cagr = ref_metrics(list(rfs.values), stamps)[0]["cagr"]
            got = s.sharpe_ratio(rfs)
            want = ((ref["cagr"] - rf_cagr), ref["volatility"])
            if not ratio_ok(got, *want):
                msgs.append("sharpe_ratio(risk-free series) = %r, definition %r for %s (%s)" % (float(got), want[0] / want[1] if want[1] else None, list(vals), shape))
        except Exception as ex:
            msgs.append("sharpe_ratio(risk-free series) raised %r" % (ex,))
        try:
            got = s.sharpe_ratio(rfs.to_frame())
            want = ((ref["cagr"] - rf_cagr), ref["volatility"])
            if not ratio_ok(got, *want):
                msgs.append("sharpe_ratio(risk-free DataFrame) = %r, definition %r for %s (%s)" % (float(got), want[0] / want[1] if want[1] else None, list(vals), shape))
        except Exception as ex:
            msgs.append("sharpe_ratio(risk-free DataFrame) raised %r" % (ex,))
        # the other risk-adjusted ratios with a risk-free level series
        try:
            for k in ("sortino_ratio", "calmar_ratio", "martin_ratio"):
                got = getattr(s, k)(rfs)
                want = ((ref["cagr"] - rf_cagr), ref[k][1])
                if not ratio_ok(got, *want):
                    msgs.append("%s(risk-free series) = %r, definition %r for %s (%s)" % (k, float(got), want[0] / want[1] if want[1] else None, list(vals), shape))
        except Exception as ex:
            msgs.append("ratio with a risk-free series raised %r" % (ex,))
        # tracking error against a benchmark whose index differs from the series' (one extra earlier observation):
        # returns must be aligned by DATE
        try:
            if len(rets) >= 2 and shape in ("daily", "weekend", "month"):
                bidx = pd.DatetimeIndex([stamps[0] - pd.Timedelta(days=2)] + list(stamps))
                bvals = [5.0] + list(vals)[::-1]
                bench2 = pd.Series(bvals, index=bidx, name="bench2")
                rb2 = [b / a - 1 for a, b in zip(bvals, bvals[1:])][1:]      # benchmark returns on the series' own dates
                want = math.sqrt(252) * std1([a - b for a, b in zip(rets, rb2)])
                got = s.tracking_error(bench2)
                if not eq(got, want):
                    msgs.append("tracking_error against a benchmark with an extra earlier date = %r, aligned by date it is %r (%s, %s)"
                                % (float(got), want, list(vals), shape))
        except Exception as ex:
            msgs.append("tracking_error (different index) raised %r" % (ex,))
        # tracking error against a benchmark (with a single return its value is undefined and the
        # implementation's behaviour - an exception from squeeze() - is not something the statement settles)
        try:
            if len(rets) < 2:
                raise StopIteration
            bench = pd.Series(rv, index=pd.DatetimeIndex(stamps), name="bench")
            _, rb, _, _ = ref_metrics(rv, stamps)
            want = math.sqrt(252) * std1([a - b for a, b in zip(rets, rb)])
            got = s.tracking_error(bench)
            if not eq(got, want):
                msgs.append("tracking_error = %r, definition %r for %s vs %s (%s)" % (float(got), want, list(vals), rv, shape))
        except StopIteration:
            pass
        except Exception as ex:
            msgs.append("tracking_error raised %r" % (ex,))
    # scale invariance
    if scale_checks and not msgs and not (n >= (4 if len(SCALES[0]) == 3 else 5)):
        for c in SCALES[0]:
            for k in METRICS:
                try:
                    a, b = getattr(s * c, k)(), getattr(s, k)()
                    if not (eq(a, b, 1e-9) or (not math.isfinite(float(a)) and not math.isfinite(float(b)))):
                        msgs.append("%s changes from %r to %r when levels %s are multiplied by %r" % (k, float(b), float(a), list(vals), c))
                except Exception as ex:
                    msgs.append("%s raised %r on scaled levels" % (k, ex))
    return msgs


def check_long(vals, shape):
    msgs = check_series(vals, shape, scale_checks=False)
    if not msgs:
        sl = pd.Series(list(vals), index=pd.DatetimeIndex(SHAPES[shape](len(vals))))
        ref = ref_metrics(vals, SHAPES[shape](len(vals)))[0]
        # power-of-two scalings only: they commute with rounding, so every return is bit-identical.  An inexact factor (0.1)
        # perturbs each return by an ulp, which re-shuffles NEARLY tied returns around the VaR quantile / around zero in a long
        # record and moves the discontinuous metrics (expected shortfall, downside volatility) - float noise, not a scale dependence;
        # inexact factors are judged on the short series, where no such near-ties exist
        for c in (2.0, 0.25, 1024.0, 2.0 ** -30):
            for k in METRICS:
                a, b = float(getattr(sl * c, k)()), float(getattr(sl, k)())
                # ratios whose textbook denominator is zero / undefined carry rounding noise in a long record: nothing is required of them
                undefined = isinstance(ref[k], tuple) and (math.isnan(ref[k][1]) or abs(ref[k][1]) < 1e-6)
                if not (eq(a, b, 1e-9) or undefined):
                    msgs.append("%s changes from %r to %r when a %d-point record is multiplied by %r" % (k, b, a, len(vals), c))
    return msgs


def corruptions(vals, stamps):
    """every single-defect variant of a valid series"""
    out = []
    n = len(vals)
    idx = pd.DatetimeIndex(stamps)
    for i in range(n):
        for bad, tag in ((float("nan"), "nan"), (0.0, "zero"), (-1.0, "negative")):
            v = list(vals)
            v[i] = bad
            out.append(("%s@%d" % (tag, i), pd.Series(v, index=idx)))
    for i in range(n - 1):
        st = list(stamps)
        st[i + 1] = st[i]
        out.append(("dupstamp@%d" % i, pd.Series(list(vals), index=pd.DatetimeIndex(st))))
        st = list(stamps)
        st[i], st[i + 1] = st[i + 1], st[i]
        out.append(("swap@%d" % i, pd.Series(list(vals), index=pd.DatetimeIndex(st))))
    # DataFrame whose defect sits in the SECOND column only
    for i in range(n):
        for bad, tag in ((float("nan"), "nan"), (0.0, "zero"), (-1.0, "negative")):
            v = list(vals)
            v[i] = bad
            out.append(("df-col2-%s@%d" % (tag, i), pd.DataFrame({"a": list(vals), "b": v}, index=idx)))
    # the same defects introduced into a COPY of a series that has already been validated / measured
    base = pd.Series(list(vals), index=idx)
    base.cagr()
    base.max_drawdown()
    for i in range(n):
        for bad, tag in ((float("nan"), "nan"), (0.0, "zero"), (-1.0, "negative")):
            c = base.copy()
            c.iloc[i] = bad
            out.append(("derived-%s@%d" % (tag, i), c))
    if n >= 3:
        out.append(("derived-reversed", base.iloc[::-1]))
        out.append(("derived-reindexed-with-gap", base.reindex(idx.union(pd.DatetimeIndex([idx[0] + (idx[1] - idx[0]) / 2])))))
    out.append(("intindex", pd.Series(list(vals))))
    out.append(("strindex", pd.Series(list(vals), index=[chr(97 + i) for i in range(n)])))
    st = list(stamps)
    st[0] = pd.NaT
    out.append(("natindex", pd.Series(list(vals), index=pd.DatetimeIndex(st))))
    return out


def check_corruptions(vals, shape):
    stamps = SHAPES[shape](len(vals))
    msgs = []
    n = 0
    good = pd.Series(list(vals), index=pd.DatetimeIndex(stamps))
    for tag, c in corruptions(vals, stamps):
        for k in METRICS + SERIES_METRICS:
            n += 1
            try:
                getattr(c, k)()
                msgs.append("%s accepted a series corrupted by %s (levels %s, %s index)" % (k, tag, list(vals), shape))
            except Exception:
                pass
        n += 1
        try:
            if isinstance(c, pd.Series):
                c.tracking_error(good)
                msgs.append("tracking_error accepted a series corrupted by %s" % tag)
        except Exception:
            pass
    return msgs, n


def check_tearsheet(vals, shape):
    """TrackRecord.tearsheet() rows equal the same definitions (the track record is fed
    with the NLV path `vals`)."""
    from tradingenv.broker.rebalancing import Rebalancing
    from tradingenv.broker.broker import Context
    stamps = SHAPES[shape](len(vals))
    tr = TrackRecord()
    for v, t in zip(vals, stamps):
        rb = Rebalancing(time=t.to_pydatetime())
        rb.profit_on_idle_cash = 0.0
        rb.context_pre = Context(v, {}, {}, {}, {})
        rb.context_post = Context(v, {}, {}, {}, {})
        rb.trades = []
        tr._checkpoint(rb)
    msgs = []
    try:
        ts = tr.tearsheet()
    except Exception as ex:
        return ["tearsheet raised %r for NLV path %s (%s)" % (ex, list(vals), shape)]
    ref, rets, dd, lv = ref_metrics(vals, stamps)
    col = ts.columns[0]
    rows = {("Return", "CAGR"): ref["cagr"], ("Risk", "Volatility"): ref["volatility"], ("Risk", "Max drawdown"): ref["max_drawdown"],
            ("Risk", "Martin risk"): ref["martin_risk"], ("Risk", "Downside volatility"): ref["downside_volatility"],
            ("Risk", "Upside volatility"): ref["upside_volatility"], ("Risk", "VaR 5%"): quantile(rets, 0.05),
            ("Return", "Overall return"): lv[-1] / lv[0] - 1,
            ("Risk-adjusted return", "Sharpe ratio"): ref["sharpe_ratio"], ("Risk-adjusted return", "Calmar ratio"): ref["calmar_ratio"]}
    for key, want in rows.items():
        try:
            got = ts.loc[key, col]
        except Exception as ex:
            msgs.append("tearsheet has no row %r" % (key,))
            continue
        ok = ratio_ok(got, *want) if isinstance(want, tuple) else eq(got, want)
        if not ok:
            msgs.append("tearsheet row %r = %r, definition %r for NLV path %s (%s)" % (key, float(got), want, list(vals), shape))
    # tearsheet with a risk-free LEVEL series over the whole history and a benchmark that starts one observation later: every
    # row is computed on the common window, also the risk-free CAGR and the ratios built on it
    if not msgs and len(vals) >= 4 and shape in ("daily", "month"):
        try:
            n = len(vals)
            level = pd.Series(list(vals), index=pd.DatetimeIndex(stamps), name="lvl")
            rf_vals = [100.0 * (1.0 + 0.001 * i * i) for i in range(n)]        # a rate that changes over time
            rf = pd.Series(rf_vals, index=pd.DatetimeIndex(stamps), name="rf")
            bench = pd.Series(list(vals)[::-1][1:], index=pd.DatetimeIndex(stamps[1:]), name="bench")
            ts2 = level.to_frame().tearsheet(benchmark=bench, risk_free=rf)
            refw, _, _, _ = ref_metrics(list(vals)[1:], stamps[1:])
            rf_cagr = ref_metrics(rf_vals[1:], stamps[1:])[0]["cagr"]
            col2 = ts2.columns[0]
            for key, want in ((("Context", "Risk-free CAGR"), rf_cagr), (("Return", "CAGR"), refw["cagr"]),
                              (("Return", "CAGR over cash"), refw["cagr"] - rf_cagr),
                              (("Risk-adjusted return", "Sharpe ratio"), (refw["cagr"] - rf_cagr, refw["volatility"]))):
                got = ts2.loc[key, col2]
                ok = ratio_ok(got, *want) if isinstance(want, tuple) else eq(got, want)
                if not ok:
                    msgs.append("tearsheet(benchmark starting later, risk-free level series) row %r = %r, on the common window it is %r (%s, %s)"
                                % (key, float(got), want, list(vals), shape))
        except Exception as ex:
            msgs.append("tearsheet(benchmark, risk-free series) raised %r for %s (%s)" % (ex, list(vals), shape))
    return msgs


def valid(vals, shape):
    stamps = SHAPES[shape](len(vals))
    return (stamps[-1] - stamps[0]).days >= 1


def _work(chunk):
    if chunk and chunk[0][3] == "quick":
        SCALES[0] = (2.0, 0.1, 2.0 ** -30)
    out = {"evaluations": 0, "violations": [], "nontrivial": set(), "corruption_calls": 0}
    for (kind, vals, shape, _tier) in chunk:
        if not valid(vals, shape):
            continue
        try:
            if kind == "metrics":
                msgs = check_series(vals, shape)
            elif kind == "long":
                msgs = check_long(vals, shape)
            elif kind == "corrupt":
                msgs, n = check_corruptions(vals, shape)
                out["corruption_calls"] += n
            else:
                msgs = check_tearsheet(vals, shape)
        except Exception as ex:
            msgs = ["harness raised %r for %s %s %s" % (ex, kind, vals, shape)]
        out["evaluations"] += 1
        lv, _ = daily_levels(vals, SHAPES[shape](len(vals)))
        if len(set(lv)) > 1:
            out["nontrivial"].add((kind, vals, shape))
        if msgs:
            out["violations"].append(({"kind": kind, "vals": list(vals), "shape": shape}, "; ".join(msgs[:2]),
                                      (kind, msgs[0].split(" ")[0], msgs[0].split(" ")[1], shape)))
    return out


def run(tier, **kw):
    rep = Report("C16", tier, LEVEL)
    maxlen = 4 if tier == "quick" else 5
    cases = []
    for L in range(2, maxlen + 1):
        for vals in itertools.product(ALPHA, repeat=L):
            for shape in SHAPES:
                if tier == "quick" and L == 4 and shape not in ("daily", "intraday", "tokyo", "closeopen"):
                    continue
                if L == 5 and shape not in ("daily", "intraday", "month", "tokyo", "closeopen"):
                    continue
                cases.append(("metrics", vals, shape))
    for L in range(2, (3 if tier == "quick" else 4) + 1):
        for vals in itertools.product(ALPHA[:4], repeat=L):
            for shape in (("daily", "intraday") if tier == "quick" else ("daily", "intraday", "month")):
                cases.append(("corrupt", vals, shape))
    for L in (3, 4):
        for vals in itertools.product(ALPHA[:4], repeat=L):
            for shape in ("daily", "month"):
                cases.append(("tearsheet", vals, shape))
    # long records: every cyclic ratio pattern of period <= 2 (quick) / 3 (thorough) over 5 ratios, at several lengths
    nlong = 0
    for per in range(1, (2 if tier == "quick" else 3) + 1):
        for pat in itertools.product(range(len(RATIOS)), repeat=per):
            for n in ((41, 260) if tier == "quick" else (41, 260, 601)):
                for shape in ("bdays", "ticks3"):
                    if n > 300 and per == 3 and shape == "ticks3":
                        continue
                    cases.append(("long", long_levels(pat, n), shape))
                    nlong += 1
    rep.set("long_records", nlong)
    nt = set()
    cases = [c + (tier,) for c in cases]
    for r in pmap(_work, shard(cases, 128)):
        rep.add("evaluations", r["evaluations"])
        rep.add("corruption_metric_calls", r["corruption_calls"])
        nt |= r["nontrivial"]
        for case, msg, group in r["violations"]:
            rep.violation(case, msg, group=group)
    rep.set("distinct_nontrivial", len(nt))
    rep.set("max_length", maxlen)
    rep.set("exhaustive", True)
    rep.set("rule", "metrics: ALL level series of length 2..%d over the value alphabet {1,2,4,3,1.5,0.75} x 7 index shapes (consecutive days, a close-to-open intraday record, weekend gap, "
                    "intraday stamps collapsing to daily levels, the same with a timezone-aware index whose UTC dates differ from the local ones, month gaps, mixed) spanning >= 1 calendar day: 12 scalar metrics (with and without a scalar "
                    "risk-free rate), VaR and expected shortfall also at quantile levels 0.25/0.5/0.75/1, 3 series-valued metrics, a 2-column DataFrame, a risk-free level series, tracking error against a benchmark, and 5 "
                    "scalings; corruptions: every single-defect variant (NaN / 0 / negative at each position, duplicated stamp, swapped adjacent stamps, "
                    "integer / string / NaT index) of every series over 4 values up to length 4 x every metric; tearsheet rows of a TrackRecord fed with the path; "
                    "long records: every cyclic pattern of day-to-day ratios {2, 1/2, 1, 3/2, 2/3} of period <= 2 (quick) / 3 (thorough) at lengths 41, 260 (601) on business-day and three-stamps-per-day indices, all scalar and series-valued metrics and 4 power-of-two scalings (down to 2^-30); "
                    "non-trivial = distinct case whose daily levels are not all equal" % maxlen)
    rep.set("samples", [{"kind": "metrics", "vals": [1.0, 2.0, 1.5, 3.0], "shape": "intraday"}, {"kind": "corrupt", "vals": [2.0, 1.0, 4.0], "shape": "daily"}])
    rep.assumptions = ["small-scope: real-valued inputs outside the alphabet are beyond a bounded enumeration; long records are covered only for periodic ratio patterns",
                       "conventions of the module's doctests: sample std (n-1), sqrt(252), linear-interpolation quantile, calendar days / 365",
                       "where the textbook value is undefined (zero or undefined denominator) only a non-finite result is required"]
    return rep.finish(replay)


def replay(case, **kw):
    vals, shape = tuple(case["vals"]), case["shape"]
    if case["kind"] in ("metrics", "long"):
        return check_long(vals, shape) if case["kind"] == "long" else check_series(vals, shape)
    if case["kind"] == "corrupt":
        return check_corruptions(vals, shape)[0]
    return check_tearsheet(vals, shape)


def probe():
    s = pd.Series([1.0, 2.0, 1.5, 3.0], index=pd.DatetimeIndex(SHAPES["intraday"](4)))
    return repr([float(getattr(s, k)()).hex() if math.isfinite(float(getattr(s, k)())) else str(getattr(s, k)()) for k in METRICS])

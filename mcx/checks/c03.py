"""C03 rebalancing reaches the requested target allocation.

Every broker state reached by the ledger search x target menu: one real
Broker.rebalance per element, compared with the target arithmetic of the
statement (exact rationals from the reference ledger)."""
from mcx import ledger
from mcx.ledger import *  # noqa
from mcx.ref import rebal
from mcx.common import Report, pmap

LEVEL = "model_checking"
W_TARGETS = [(0.5, 0.5), (1.0, 0.0), (0.0, 0.0), (-0.5, 0.75), (1.5, -0.5), (0.25, 0.0), (0.0, -1.0), (2.0, 1.0), (0.125, 0.125), (-0.125, 0.0)]
N_TARGETS = [(2.0, -1.0), (0.0, 3.0), (0.0, 0.0), (-1.5, 0.25)]
W_TARGETS3 = [(0.5, 0.25, 0.25), (0.5, 0.5, 0.0), (0.0, 0.0, 1.0), (-0.5, 0.75, 0.0), (0.0, -0.5, 1.5), (0.25, 0.0, 0.0), (0.0, 0.0, 0.0)]
N_TARGETS3 = [(2.0, -1.0, 0.0), (0.0, 0.0, 3.0), (1.0, 1.0, -1.5)]


def sources(tier):
    scale, deposit = ledger.palette()
    q = ledger.quotes_of(scale)
    if tier == "quick":
        return [("spot1+fut", ledger.FEES[0], q, deposit, 3), ("spot4+fut", ledger.FEES[1], q, deposit, 2),
                ("fut+fut", ledger.FEES[4], q, deposit, 2), ("etf+es", ledger.FEES[5], q, deposit, 2),
                ("halfmult", ledger.FEES[0], q, deposit, 3), ("spot+spot", ledger.FEES[3], q, deposit, 2),
                ("spot1+fut", ledger.FEES[0], q, deposit, 2, 0.05), ("fut+fut", ledger.FEES[1], q, deposit, 2, 0.05),
                ("three", ledger.FEES[0], q, deposit, 2), ("three", ledger.FEES[1], q, deposit, 2),
                ("spot1+fut", ledger.FEES[0], q, deposit, 2, 0.0, True), ("fut+fut", ledger.FEES[1], q, deposit, 2, 0.0, True),
                ("spot1+fut", ledger.FEES[6], q, deposit, 2), ("three", ledger.FEES[6], q, deposit, 1),
                # frictionless, reached through rebalances, three operations deep: rebalance, the same again (trades nothing), a direct trade
                ("spot1+fut", ledger.FEES[0], q[:2], deposit, 3, 0.0, True),
                # prices of the order of 1e-3: weight rebalances hold tens of millions of units, and a contract-count target then
                # scales such a position down to a remainder that is tiny relative to the quantity held
                ("penny", ledger.FEES[0], ledger.quotes_of(ledger.unit_scale("penny", scale)), deposit, 2, 0.0, True)]
    out = []
    for u in ledger.UNIVERSES:
        for f in (ledger.FEES[0], ledger.FEES[1], ledger.FEES[4], ledger.FEES[5]):
            out.append((u, f, q, deposit, 3))
    out[0] = out[0][:4] + (4,)
    for u in ledger.UNIVERSES:
        out.append((u, ledger.FEES[0], q, deposit, 3, 0.05))
        out.append((u, ledger.FEES[1], q, deposit, 2, 0.05))
        out.append((u, ledger.FEES[0], q, deposit, 2, 0.0, True))
    out.append(("spot1+fut", ledger.FEES[1], q, deposit, 3, 0.0, True))
    out.append(("penny", ledger.FEES[0], ledger.quotes_of(ledger.unit_scale("penny", scale)), deposit, 3, 0.0, True))
    out.append(("penny", ledger.FEES[1], ledger.quotes_of(ledger.unit_scale("penny", scale)), deposit, 2, 0.0, True))
    for u in ledger.UNIVERSES:
        out.append((u, ledger.FEES[6], q, deposit, 2))
    return out


def _collect(src):
    universe, fee, quotes, deposit, depth = src[:5]
    rate = src[5] if len(src) > 5 else 0.0
    # sources flagged "reb" also reach their states through weight rebalances, so that LARGE holdings exist and a target can
    # be a same-sign REDUCTION of a position (not only an increase, a flip or a liquidation)
    reb = len(src) > 6 and src[6]
    ops = ledger.alphabet(with_rebalance=reb, nquotes=len(quotes), marks=False, ncontracts=len(ledger.contracts_of(universe)))
    states, r = ledger.collect_states(universe, fee, depth, quotes, deposit, ops, rate=rate)
    return src, states, r["transitions"]


def check_rebalance(sb, ref, cs, fee, measure, alloc, second=True, preview_sb=None):
    """One rebalance transition from a state; returns (messages, nontrivial?).
    With preview_sb the same Rebalancing object is first asked for its trades on ANOTHER account state
    (a preview, as Rebalancing.make_trades is documented to allow) before being executed here."""
    b = unsnap(sb)
    pre_nlv = ref.nlv(b.exchange, cs)
    if pre_nlv is None or pre_nlv <= 0:
        return [], False
    now = (b._last_accrual or T0) + timedelta(days=1)
    rb = Rebalancing(contracts=list(cs), allocation=list(alloc), measure=measure, time=now)
    books = {c.symbol: (b.exchange[c].bid_price, b.exchange[c].ask_price) for c in cs}
    if preview_sb is not None:
        try:
            rb.make_trades(unsnap(preview_sb))
        except Exception:
            pass
    try:
        b.rebalance(rb)
    except EndOfEpisodeError:
        return [], False   # the requested leverage itself ruins the account: C09
    except Exception as ex:
        return ["Broker.rebalance raised %r" % (ex,)], False
    msgs = []
    nlv_pre = pre_nlv + Fr(float(rb.profit_on_idle_cash))
    if not fclose(rb.context_pre.nlv, nlv_pre):
        msgs.append("context_pre.nlv %r, ledger %r" % (rb.context_pre.nlv, float(nlv_pre)))
    hq = b.holdings_quantity
    traded = False
    for c, a in zip(cs, alloc):
        bid, ask = books[c.symbol]
        got_q = hq.get(c, 0.0)
        if Fr(a) == 0:
            if got_q != 0:
                msgs.append("%s is absent from the target (or targeted at 0) but ends with position %r" % (c.symbol, got_q))
            continue
        if measure == "weight":
            px = Fr(ask) if a > 0 else Fr(bid)
            lhs = Fr(float(got_q)) * Fr(c.multiplier) * px
            rhs = Fr(a) * nlv_pre
            if abs(float(lhs) - float(rhs)) > 1e-9 * max(1.0, abs(float(rhs))):
                msgs.append("%s: position x multiplier x %s = %r but weight %r x NLV-before-trading %r = %r"
                            % (c.symbol, "ask" if a > 0 else "bid", float(lhs), a, float(nlv_pre), float(rhs)))
        else:
            # (floats: the traded difference and the resulting sum are exact only up to an ulp of the LARGEST operand)
            if abs(got_q - a) > 1e-12 * max(1.0, abs(a), abs(float(ref.qty(c)))):
                msgs.append("%s: target of %r contracts but position is %r" % (c.symbol, a, got_q))
        if ref.qty(c) != Fr(float(got_q)):
            traded = True
    # frictionless sub-menu
    frictionless = fee == (0.0, 0.0) and all(books[c.symbol][0] == books[c.symbol][1] for c in cs)
    if frictionless and not msgs:
        try:
            post = b.net_liquidation_value(False)
            if not fclose(post, nlv_pre):
                msgs.append("frictionless market: NLV changed from %r to %r across the rebalance" % (float(nlv_pre), post))
            if measure == "weight" and post > 0:
                w = b.holdings_weights()
                for c, a in zip(cs, alloc):
                    if abs(w.get(c, 0.0) - a) > 1e-9:
                        msgs.append("frictionless market: reported weight of %s is %r, target %r" % (c.symbol, w.get(c, 0.0), a))
            if second and post > 0:
                # "immediate": same instant, so no further interest accrues; the trades it would make are
                # computed with make_trades (a second executed rebalance at the same timestamp would be
                # rejected by the track record as a duplicate)
                rb2 = Rebalancing(contracts=list(cs), allocation=list(alloc), measure=measure, time=now)
                notional = sum(abs(t.notional) for t in rb2.make_trades(b))
                if notional > 1e-9 * post:
                    msgs.append("frictionless market: an immediate second rebalance to the same target traded notional %r" % notional)
        except EndOfEpisodeError:
            pass
        except Exception as ex:
            msgs.append("frictionless follow-up raised %r" % (ex,))
    return msgs, traded


CHAIN_TARGETS = [("weight", 0.5), ("weight", -0.5), ("weight", 1.5), ("weight", 0.0), ("nr-contracts", 2.0), ("nr-contracts", -3.0)]


def chain_case(case, measure, a):
    """A request whose underlying is a futures chain (month offset 0/1, before/after the roll, from cash or holding what the
    chain denoted earlier): the contract the chain denotes NOW reaches the target, every other contract of the chain is closed."""
    from mcx import chainreq as CR
    b, chain, cs, now, px = CR.setup(case)
    R = CR.ref_lead(cs, now, case[0])
    rb = Rebalancing(contracts=[chain], allocation=[a], measure=measure, time=now)
    try:
        b.rebalance(rb)
    except Exception as ex:
        reset_clock()
        return ["Broker.rebalance of a chain request raised %r" % (ex,)]
    msgs = []
    h = CR.held(b, cs)
    reset_clock()
    others = {s_: q for s_, q in h.items() if s_ != R.symbol}
    if others:
        msgs.append("the chain denotes %s at %s (month offset %d) but after the rebalance the account also holds %r" % (R.symbol, now, case[0], others))
    q = h.get(R.symbol, 0.0)
    bid, ask = px[R.symbol]
    nlv = float(rb.context_pre.nlv)
    if measure == "weight":
        want = a * nlv
        got = q * R.multiplier * (ask if a > 0 else bid)
        if abs(got - want) > 1e-9 * max(1.0, abs(want)):
            msgs.append("chain target %r x NLV-before-trading %r = %r but position %r in %s x multiplier x %s = %r"
                        % (a, nlv, want, q, R.symbol, "ask" if a > 0 else "bid", got))
    elif abs(q - a) > 1e-12 * max(1.0, abs(a)):
        msgs.append("chain target of %r contracts but the position in %s is %r (holdings %r)" % (a, R.symbol, q, h))
    return msgs


def chain_part(rep):
    from mcx import chainreq as CR
    n = 0
    for case in CR.cases():
        for measure, a in CHAIN_TARGETS:
            msgs = chain_case(case, measure, a)
            n += 1
            if msgs:
                rep.violation({"part": "chain", "case": list(case), "measure": measure, "alloc": a},
                              "chain request %s %s %r: %s" % (case, measure, a, "; ".join(msgs[:2])), group=("chain", msgs[0].split(" ")[0], case[0]))
    rep.add("transitions", n)
    rep.add("traces_validated_against_impl", n)
    rep.set("chain_requests", n)


SPACE_ACTIONS = {"weight": [(0.5, -0.25), (0.0, 0.125), (0.0, 0.0)], "nr-contracts": [(2.5, -0.5), (-1.25, 3.0), (1000.0, 0.75), (0.0, 0.0)]}


def space_case(si, hold_i, ai):
    """A request built by an action space (as TradingEnv.step builds it) reaches its target like a hand-built one: weights
    w x NLV, numbers of contracts exactly (whole lots: truncated toward zero), untargeted holdings closed."""
    from mcx import spacereq as SR
    name, space, measure, frac = SR.spaces(0.0)[si]
    hold = [None, {"A": 10.5, "B": -3.25}][hold_i]
    a = SPACE_ACTIONS[measure][ai]
    b = SR.broker(hold)
    nlv = float(b.net_liquidation_value(False))
    try:
        rb = SR.request(space, np.array(a), b)
        b.rebalance(rb)
    except Exception as ex:
        return ["%s: request/rebalance for action %r raised %r" % (name, a, ex)]
    msgs = []
    for c, t in zip((SR.A_, SR.B_), a):
        q = float(b.holdings_quantity.get(c, 0.0))
        held = (hold or {}).get(c.symbol, 0.0)
        want = t * nlv / SR.PX[c.symbol][0] if measure == "weight" else t
        if t == 0:
            # absent from the target: closed entirely (a liquidation is never truncated away... unless whole lots leave the fraction)
            if frac and q != 0:
                msgs.append("%s: %s targeted at 0 but position %r remains" % (name, c.symbol, q))
            continue
        if frac:
            if abs(q - want) > 1e-9 * max(1.0, abs(want)):
                msgs.append("%s action %r: position in %s is %r, target %r" % (name, a, c.symbol, q, want))
        else:
            imb = want - held
            if abs((q - held) - int(imb)) > 1e-9:
                msgs.append("%s action %r: whole-lot trade in %s is %r, imbalance %r truncated is %r" % (name, a, c.symbol, q - held, imb, int(imb)))
    return msgs


def space_part(rep):
    from mcx import spacereq as SR
    n = 0
    for si in range(len(SR.spaces(0.0))):
        measure = SR.spaces(0.0)[si][2]
        for hold_i in (0, 1):
            for ai in range(len(SPACE_ACTIONS[measure])):
                msgs = space_case(si, hold_i, ai)
                n += 1
                if msgs:
                    rep.violation({"part": "space", "space": si, "hold": hold_i, "action": ai}, "; ".join(msgs[:2]), group=("space", si, msgs[0].split(":")[0]))
    rep.add("transitions", n)
    rep.add("traces_validated_against_impl", n)
    rep.set("requests_built_by_action_spaces", n)


def _work(unit):
    src, chunk = unit
    universe, fee, quotes, deposit, depth = src[:5]
    rate = src[5] if len(src) > 5 else 0.0
    cs = ledger.contracts_of(universe)
    reset_clock()
    out = {"transitions": 0, "violations": [], "nontrivial": 0, "outcomes": set()}
    b0, _, _ = ledger.initial(universe, fee, quotes, deposit, rate)
    first_sb = snap(b0)      # the preview state: the untouched initial account of this source
    reb = len(src) > 6 and src[6]
    # sources whose states are reached through rebalances are also asked for the very targets of those rebalances: the request
    # that reached the state (perhaps twice, the second time trading nothing) is then REPEATED after other operations
    again = {m: tuple(a for m_, a in ledger.rebalances_for(len(cs)) if m_ == m) for m in ("weight", "nr-contracts")} if reb else {}
    for sb, ref, hist in chunk:
        for measure, targets in ((("weight", W_TARGETS), ("nr-contracts", N_TARGETS)) if len(cs) == 2 else
                                 (("weight", W_TARGETS3), ("nr-contracts", N_TARGETS3))):
            targets = list(targets) + [a for a in again.get(measure, ()) if a not in targets]
            for alloc in targets:
                msgs, traded = check_rebalance(sb, ref, cs, fee, measure, alloc)
                out["transitions"] += 1
                previewed = False
                if not msgs and hist and alloc in targets[:3]:
                    previewed = True
                    # preview on a different account state, then execute here
                    msgs, _ = check_rebalance(sb, ref, cs, fee, measure, alloc, second=False, preview_sb=first_sb)
                    out["transitions"] += 1
                    if msgs:
                        msgs = ["after a preview (make_trades) of the same request on another account state: " + m for m in msgs]
                if traded:
                    out["nontrivial"] += 1
                if msgs:
                    case = {"universe": universe, "fee": list(fee), "quotes": [list(q) for q in quotes], "deposit": deposit, "rate": rate,
                            "history": [list(o) for o in hist], "measure": measure, "alloc": list(alloc),
                            "preview": previewed and msgs[0].startswith("after a preview")}
                    out["violations"].append((case, "; ".join(msgs[:3]), (msgs[0].split(" ")[0], measure, universe)))
    return out


def run(tier, **kw):
    rep = Report("C03", tier, LEVEL)
    srcs = sources(tier)
    units = []
    nstates = 0
    bfs_trans = 0
    for src, states, trans in pmap(_collect, srcs):
        nstates += len(states)
        bfs_trans += trans
        n = 16
        for i in range(n):
            if states[i::n]:
                units.append((src, states[i::n]))
    for r in pmap(_work, units):
        rep.add("transitions", r["transitions"])
        rep.add("traces_validated_against_impl", r["transitions"])
        rep.add("rebalances_that_traded", r["nontrivial"])
        for case, msg, group in r["violations"]:
            rep.violation(case, msg, group=group)
    chain_part(rep)
    space_part(rep)
    rep.set("states", nstates)
    rep.set("bfs_transitions_to_reach_states", bfs_trans)
    rep.set("targets", {"weight": W_TARGETS, "nr-contracts": N_TARGETS})
    rep.set("sources", [{"universe": s[0], "fee": s[1], "depth": s[4], "rate": (s[5] if len(s) > 5 else 0.0),
                         "states_reached_through_rebalances": len(s) > 6} for s in srcs])
    rep.set("exhaustive", True)
    rep.set("samples", [{"universe": "spot1+fut", "history": [["t", 1, -2.0], ["q", 1, 1]], "measure": "weight", "alloc": [1.5, -0.5],
                         "meaning": "short 2 F, quote F 100/104, then rebalance to 150% S / -50% F"}])
    rep.assumptions = ["start states: every state of the ledger BFS within the depth bound per source (NLV > 0)",
                       "a rebalance whose own trades drive NLV <= 0 is excluded (C09)",
                       "NLV before trading = reference ledger NLV + reported interest of the rebalance (one day at 5% in the sources marked rate=0.05, else 0)"]
    return rep.finish(replay)


def replay(case, **kw):
    if case.get("part") == "chain":
        return chain_case(tuple(case["case"]), case["measure"], case["alloc"])
    if case.get("part") == "space":
        return space_case(case["space"], case["hold"], case["action"])
    reset_clock()
    universe, fee = case["universe"], tuple(case["fee"])
    quotes = [tuple(q) for q in case["quotes"]]
    b, ref, cs = ledger.initial(universe, fee, quotes, case["deposit"], case.get("rate", 0.0))
    for op in case["history"]:
        ref, _ = ledger.apply_op(b, ref, cs, tuple(op), quotes, fee)
    if case.get("preview"):
        b0, _, _ = ledger.initial(universe, fee, quotes, case["deposit"], case.get("rate", 0.0))
        msgs, _ = check_rebalance(snap(b), ref, cs, fee, case["measure"], tuple(case["alloc"]), second=False, preview_sb=snap(b0))
        return ["after a preview (make_trades) of the same request on another account state: " + m for m in msgs]
    msgs, _ = check_rebalance(snap(b), ref, cs, fee, case["measure"], tuple(case["alloc"]))
    return msgs


def probe():
    reset_clock()
    q = ledger.quotes_of(1.0)
    b, ref, cs = ledger.initial("spot1+fut", (1.0, 1.0 / 64), q, 65536.0)
    ref, _ = ledger.apply_op(b, ref, cs, ("t", 1, -2.0), q, (1.0, 1.0 / 64))
    rb = Rebalancing(contracts=list(cs), allocation=[1.5, -0.5], measure="weight", time=T0 + timedelta(days=1))
    b.rebalance(rb)
    return repr(sorted((k.symbol, float(v).hex()) for k, v in b.holdings_quantity.items()))

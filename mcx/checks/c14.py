"""C14 order book semantics: explicit-state search over a real Exchange with the
R-BOOK reference (a dict) in lock-step."""
from collections import deque
import copy
import math
import itertools
from mcx.harness import *  # noqa
from mcx.common import Report, pmap, seed
from tradingenv.contracts import ETF, ES, FutureChain, Index

from mcx.harness import hidden_exchange

LEVEL = "model_checking"
NAN = float("nan")
T_EARLY = T0 - timedelta(hours=1)
A = ETF("A")
B = ETF("B")
F1 = ES(2021, 3)
F2 = ES(2021, 6)
CHAIN = FutureChain(contracts=[F2, F1])      # explicit listings are given out of chronological order on purpose
F3 = ES(2021, 9)
CHAIN1 = FutureChain(contracts=[F3, F1, F2], month=1)     # a chain addressing the DEFERRED month: the contract after the lead
A_IDX = Index("A")     # another asset class carrying the SAME symbol: contracts are identified by their symbol
KEYS = [A, B, F1, F2, CHAIN, A_IDX, CHAIN1]
KEYNAMES = ["A", "B", "F1", "F2", "CHAIN", "Index(A)", "CHAIN(month=1)"]
CLOCKS = [F1.last_trading_date - timedelta(days=1), F1.last_trading_date, F1.last_trading_date + timedelta(days=1)]
# in every palette the first two quotes share their mid (and, like every quote here, their timestamp) but differ in bid/ask;
# the third shares the bid of none
PAIRS = [[(10.0, 10.0), (9.0, 11.0), (10.0, 12.0)],
         [(64.0, 64.0), (63.0, 65.0), (31.0, 33.0)],
         [(0.5, 0.5), (0.25, 0.75), (0.5, 3.0)]]


_PAL = [None]


def pairs():
    if _PAL[0] is not None:
        return PAIRS[_PAL[0]]
    return PAIRS[seed() % len(PAIRS)]


def alphabet():
    ops = []
    for k in range(len(KEYS)):
        for p in range(3):
            ops.append(("q", k, p))
    for k in range(len(KEYS)):
        ops.append(("d", k))
    for k in range(len(KEYS)):
        ops.append(("w", k))          # a withdrawn market: a quote with NaN on both sides
    for k in range(len(KEYS)):
        ops.append(("qe", k, 2))      # a quote delivered late: stamped one hour EARLIER than the others (accepted and recorded like any other)
    for c in range(3):
        ops.append(("c", c))
    for c in range(3):
        # the clock moves and the FIRST thing done at the new instant is a pure query for a deferred month of the chain
        ops.append(("cp", c))
    return ops


def lead(now):
    """reference: listed contract with the earliest last-trading date strictly later than now"""
    for f in (F1, F2):
        if f.last_trading_date > now:
            return f
    return None


def resolve(key, now):
    """symbol of the book a key addresses"""
    if key is CHAIN:
        f = lead(now)
        return f.symbol
    if key is CHAIN1:
        f = lead(now)
        return (F2 if f is F1 else F3).symbol
    if isinstance(key, str):
        return key
    return key.symbol


class RefBook:
    __slots__ = ("bid", "ask", "alive", "hist")

    def __init__(self):
        self.bid, self.ask, self.alive, self.hist = NAN, NAN, True, []

    def copy(self):
        o = RefBook()
        o.bid, o.ask, o.alive, o.hist = self.bid, self.ask, self.alive, list(self.hist)
        return o


def ref_apply(books, now, op):
    books = {k: v.copy() for k, v in books.items()}
    if op[0] in ("c", "cp"):
        return books, CLOCKS[op[1]]
    sym = resolve(KEYS[op[1]], now)
    bk = books.setdefault(sym, RefBook())
    if op[0] in ("q", "w", "qe"):
        if bk.alive:
            bid, ask = pairs()[op[2]] if op[0] != "w" else (NAN, NAN)
            bk.bid, bk.ask = bid, ask
            bk.hist.append((T0 if op[0] != "qe" else T_EARLY, bid, ask))
    else:
        bk.bid, bk.ask, bk.alive = NAN, NAN, False
    return books, now


def impl_apply(ex, op):
    if op[0] == "c":
        AbstractContract.now = CLOCKS[op[1]]
    elif op[0] == "cp":
        AbstractContract.now = CLOCKS[op[1]]
        try:
            CHAIN.lead_contract(month=1)      # a query: must not change what the chain key addresses
        except Exception:
            pass                              # no deferred month listed once the last contract leads
    elif op[0] in ("q", "w", "qe"):
        bid, ask = pairs()[op[2]] if op[0] != "w" else (NAN, NAN)
        ex.process_EventNBBO(EventNBBO(T0 if op[0] != "qe" else T_EARLY, KEYS[op[1]], bid, ask))
    else:
        ex.process_EventContractDiscontinued(EventContractDiscontinued(T0, KEYS[op[1]]))


def same(a, b):
    if isinstance(a, float) and math.isnan(a):
        return isinstance(b, float) and math.isnan(b) or (hasattr(b, "dtype") and math.isnan(float(b)))
    try:
        return float(a) == float(b)
    except Exception:
        return a == b


def compare(ex, books, now):
    """All query forms against the reference."""
    msgs = []
    query_keys = [A, B, "A", "B", F1, F2, CHAIN, A_IDX, CHAIN1, F3]
    names = ["A", "B", "'A'", "'B'", "F1", "F2", "CHAIN", "Index(A)", "CHAIN(month=1)", "F3"]
    exp = []
    for key, name in zip(query_keys, names):
        sym = resolve(key, now)
        rb = books.get(sym) or RefBook()
        book = ex[key]
        mid = (rb.ask + rb.bid) / 2
        for what, got, want in (("bid", book.bid_price, rb.bid), ("ask", book.ask_price, rb.ask), ("mid", book.mid_price, mid),
                                ("acq(+1)", book.acq_price(1), rb.ask), ("acq(-1)", book.acq_price(-1), rb.bid),
                                ("acq(0)", book.acq_price(0), mid), ("liq(+1)", book.liq_price(1), rb.bid),
                                ("liq(-1)", book.liq_price(-1), rb.ask), ("liq(0)", book.liq_price(0), mid),
                                ("spread", book.spread, rb.ask - rb.bid)):
            if not same(got, want):
                msgs.append("%s of key %s is %r, expected %r" % (what, name, got, want))
        if book.is_alive != rb.alive:
            msgs.append("is_alive of key %s is %r, expected %r" % (name, book.is_alive, rb.alive))
        h = book.history
        got_h = list(zip(h["time"], h["bid_price"], h["ask_price"]))
        if [(t, repr(float(b_)), repr(float(a_))) for t, b_, a_ in got_h] != [(t, repr(float(b_)), repr(float(a_))) for t, b_, a_ in rb.hist]:
            msgs.append("history of key %s is %r, expected %r" % (name, got_h[-4:], rb.hist[-4:]))
        if len(h["mid_price"]) != len(rb.hist) or any(not same(m, (b_ + a_) / 2) for m, (_, b_, a_) in zip(h["mid_price"], rb.hist)):
            msgs.append("mid-price history of key %s inconsistent" % name)
        exp.append(rb)
    ks = [A, B, F1, F2, CHAIN]
    rbs = [books.get(resolve(k, now)) or RefBook() for k in ks]
    signs = np.array([1, -1, 0, 1, -1])
    want_acq = [rb.ask if s > 0 else rb.bid if s < 0 else (rb.ask + rb.bid) / 2 for rb, s in zip(rbs, signs)]
    want_liq = [rb.bid if s > 0 else rb.ask if s < 0 else (rb.ask + rb.bid) / 2 for rb, s in zip(rbs, signs)]
    # the same queries with QUANTITIES (fractional, large, tiny) instead of unit signs: only the sign may matter
    qs = np.array([0.5, -0.25, 0.0, 2.5, -1e-9])
    for what, got, want in (("acq_prices(quantities)", ex.acq_prices(ks, qs), want_acq), ("liq_prices(quantities)", ex.liq_prices(ks, qs), want_liq),
                            ("acq_prices(list of quantities)", ex.acq_prices(ks, [0.5, -0.25, 0, 3, -2]), want_acq)):
        if len(got) != len(want) or any(not same(g, w) for g, w in zip(got, want)):
            msgs.append("%s vector is %r, expected %r" % (what, list(got), want))
    for what, got, want in (("acq_prices", ex.acq_prices(ks, signs), want_acq), ("liq_prices", ex.liq_prices(ks, signs), want_liq),
                            ("bid_prices", ex.bid_prices(ks), [r.bid for r in rbs]), ("ask_prices", ex.ask_prices(ks), [r.ask for r in rbs]),
                            ("mid_prices", ex.mid_prices(ks), [(r.bid + r.ask) / 2 for r in rbs]),
                            ("spreads", ex.spreads(ks), [r.ask - r.bid for r in rbs])):
        if len(got) != len(want) or any(not same(g, w) for g, w in zip(got, want)):
            msgs.append("%s vector is %r, expected %r" % (what, list(got), want))
    return msgs


def state_key(books, now):
    out = []
    for sym in sorted(books):
        b = books[sym]
        out.append((sym, repr(b.bid), repr(b.ask), b.alive, len(b.hist), tuple(b.hist[-2:])))
    return (tuple(out), now)


def search(first_ops, depth):
    """BFS below each given first operation (unit of parallel work)."""
    ops = alphabet()
    res = {"states": 0, "transitions": 0, "violations": [], "per_depth": [], "outcomes": set()}
    seen = set()
    frontier = deque()
    AbstractContract.now = CLOCKS[0]
    ex0 = Exchange()
    start = ({}, CLOCKS[0])
    for fo in first_ops:
        frontier.append((snap(ex0), start[0], start[1], (), fo))
    # expand: items carry the op still to apply so that the first level is restricted to first_ops
    while frontier:
        sx, books, now, hist, forced = frontier.popleft()
        for op in ([forced] if forced is not None else ops):
            AbstractContract.now = now
            ex = unsnap(sx)
            if len(hist) <= 1:
                # near the root the successor is built on a copy.deepcopy of the restored exchange (deeper levels use the pickle
                # snapshot alone): a copied exchange must be as independent of its source as a restored one
                ex = copy.deepcopy(ex)
            impl_apply(ex, op)
            nbooks, nnow = ref_apply(books, now, op)
            AbstractContract.now = nnow
            res["transitions"] += 1
            try:
                msgs = compare(ex, nbooks, nnow)
            except Exception as e:
                msgs = ["query raised %r" % (e,)]
            nh = hist + (op,)
            if msgs:
                res["violations"].append((nh, "; ".join(msgs[:3])))
                continue
            k = state_key(nbooks, nnow) + (hidden_exchange(ex),)     # + attributes the pinned Exchange does not have (caches)
            res["outcomes"].add(hash(k[0]))
            if k in seen:
                continue
            seen.add(k)
            while len(res["per_depth"]) <= len(nh):
                res["per_depth"].append(0)
            res["per_depth"][len(nh)] += 1
            if len(nh) < depth:
                frontier.append((snap(ex), nbooks, nnow, nh, None))
    res["states"] = len(seen)
    return res


def _work(unit):
    first_ops, depth = unit
    return search(first_ops, depth)


def standalone_case(opening, hist):
    """A LimitOrderBook used on its own (public constructor, with or without opening quotes): last quote wins, history in order,
    and after its contract is discontinued it reports no price whatever it was opened with.  Returns messages."""
    from tradingenv.exchange import LimitOrderBook
    import math
    QS = [(64.0, 66.0), (70.0, 70.0), (60.0, 63.0)]
    t0 = datetime(2021, 1, 4)
    c = ETF("SOLO")
    book = LimitOrderBook(*opening) if opening else LimitOrderBook()
    bid, ask = (opening[0], opening[1]) if opening else (float("nan"), float("nan"))
    hist_ref = []
    alive = True
    msgs = []
    for i, op in enumerate(hist):
        t = t0 + timedelta(minutes=i + 1)
        if op == "t":
            book.terminate(EventContractDiscontinued(t, c))
            bid = ask = float("nan")
            alive = False
        else:
            b_, a_ = QS[op]
            book.update(EventNBBO(t, c, b_, a_))
            bid, ask = b_, a_
            hist_ref.append((t, b_, a_))

        def eq_(x, y):
            return (x != x and y != y) or x == y
        mid = (bid + ask) / 2
        got = {"bid": book.bid_price, "ask": book.ask_price, "mid": book.mid_price, "buy": book.acq_price(1.0), "sell": book.acq_price(-1.0),
               "liq long": book.liq_price(1.0), "liq short": book.liq_price(-1.0), "flat": book.acq_price(0)}
        want = {"bid": bid, "ask": ask, "mid": mid, "buy": ask, "sell": bid, "liq long": bid, "liq short": ask, "flat": mid}
        for k_ in got:
            if not eq_(float(got[k_]), float(want[k_])):
                msgs.append("standalone book opened with %r after %s: %s is %r, expected %r" % (opening, list(hist[:i + 1]), k_, got[k_], want[k_]))
        if book.is_alive != alive:
            msgs.append("standalone book after %s: is_alive %r" % (list(hist[:i + 1]), book.is_alive))
        h = list(zip(book.history["time"], book.history["bid_price"], book.history["ask_price"]))
        if h != hist_ref:
            msgs.append("standalone book after %s: history %r, quotes accepted %r" % (list(hist[:i + 1]), h, hist_ref))
        if msgs:
            break
    return msgs


def standalone_cases():
    out = []
    for opening in (None, (99.0, 101.0), (99.0, 101.0, 100.0, 200.0)):
        for n in (1, 2, 3):
            for pre in itertools.product(range(3), repeat=n - 1):
                out.append((opening, list(pre) + ["t"]))
                for last in range(3):
                    out.append((opening, list(pre) + [last]))
    return out


def run(tier, **kw):
    rep = Report("C14", tier, LEVEL)
    nsolo = 0
    for opening, hist in standalone_cases():
        nsolo += 1
        try:
            m = standalone_case(opening, hist)
        except Exception as ex:
            m = ["standalone book opened with %r, history %s raised %r" % (opening, hist, ex)]
        if m:
            rep.violation({"part": "standalone", "opening": list(opening) if opening else None, "history": hist}, m[0], group=("standalone", len(hist)))
    rep.set("standalone_book_histories", nsolo)
    depth = 4 if tier == "quick" else 5
    ops = alphabet()
    units = [([op], depth) for op in ops]
    per_depth = []
    for r in pmap(_work, units):
        rep.add("states", r["states"])
        rep.add("transitions", r["transitions"])
        rep.add("traces_validated_against_impl", r["transitions"])
        for i, n in enumerate(r["per_depth"]):
            while len(per_depth) <= i:
                per_depth.append(0)
            per_depth[i] += n
        for hist, msg in r["violations"]:
            rep.violation({"history": [list(o) for o in hist], "palette": seed() % len(PAIRS)}, "after %s: %s" % (list(hist), msg),
                          group=(msg.split(" ")[0], len(hist)))
    rep.set("frontier_per_depth", per_depth)
    rep.set("depth", depth)
    rep.set("alphabet", [list(o) for o in ops])
    rep.set("keys", KEYNAMES + ["'A' (string, queries only)", "'B' (string, queries only)"])
    rep.set("exhaustive", True)
    rep.set("note", "states are counted per first-operation work unit (each unit deduplicates on its own), so the global number of distinct states is at most this sum")
    rep.set("samples", [{"history": [["q", 4, 1], ["c", 1], ["q", 4, 2], ["d", 2]],
                         "meaning": "quote via the chain key (lands in ESH21), advance the clock to ESH21's last trading instant, quote via the chain again (now ESM21), discontinue ESH21"}])
    rep.assumptions = ["3 (bid, ask) pairs per palette, one timestamp; state key = per book (bid, ask, alive, history length, last 2 history entries) + contract clock: no operation reads deeper history",
                       "string keys are used in queries only (EventNBBO requires a contract object)"]
    return rep.finish(replay)


def replay(case, **kw):
    if case.get("part") == "standalone":
        return standalone_case(tuple(case["opening"]) if case["opening"] else None, case["history"])
    _PAL[0] = case.get("palette")
    AbstractContract.now = CLOCKS[0]
    ex = Exchange()
    books, now = {}, CLOCKS[0]
    msgs = []
    for i, op in enumerate(case["history"]):
        op = tuple(op)
        AbstractContract.now = now
        # same snapshot discipline as the search: restored from a pickle at every level, deep-copied near the root
        ex = unsnap(snap(ex))
        if i <= 1:
            ex = copy.deepcopy(ex)
        impl_apply(ex, op)
        books, now = ref_apply(books, now, op)
        AbstractContract.now = now
        try:
            msgs = compare(ex, books, now)
        except Exception as e:
            msgs = ["query raised %r" % (e,)]
        if msgs:
            break
    reset_clock()
    return msgs


def probe():
    AbstractContract.now = CLOCKS[0]
    ex = Exchange()
    for op in [("q", 4, 1), ("c", 1), ("q", 4, 2), ("d", 2), ("q", 2, 0), ("q", 0, 1)]:
        impl_apply(ex, op)
    out = repr([(n, ex[k].bid_price, ex[k].ask_price, ex[k].is_alive, len(ex[k].history["time"])) for n, k in zip(KEYNAMES, KEYS)])
    reset_clock()
    return out

"""C06 interest on cash: explicit-state search over accrual/query histories on a
real Broker against a closed-form reference (50-digit decimals), plus ALL
compositions of an interval into sub-intervals (split invariance)."""
import itertools
from collections import deque
from decimal import Decimal, getcontext
from mcx.harness import *  # noqa
from mcx.common import Report, pmap, seed
from mcx.enumr import shard

getcontext().prec = 50
LEVEL = "model_checking"
YEAR = Decimal(365 * 24 * 3600)
DELTAS = [timedelta(seconds=1), timedelta(days=1), timedelta(days=365), timedelta(days=3650)]
RATES = [0.0, 0.02, 0.05, -0.01, 0.2]
MARKUPS = [0.0, 0.005, 0.03]
CASHES = [4096.0, -1024.0, 0.0]
F = fut("F", 2.0, 0.25)
RATE2 = Rate("second reference rate")
R2, M2 = 0.04, 0.01          # rate of the second reference contract and markup of the fee schedule that refers to it
RQ = 0.03                    # value of a new fixing of the first reference rate


def configs(tier):
    out = []
    for cash in CASHES:
        for pos in (0.0, 4.0):
            for r in RATES:
                for m in MARKUPS:
                    if 1 + r - m <= 0:
                        continue
                    out.append((cash, pos, r, m))
    return out


def ref_interest(cash, r, m, seconds):
    """Expected accrued amount (Decimal) per the statement."""
    cash = Decimal(cash)
    if cash == 0 or seconds == 0:
        return Decimal(0)
    years = Decimal(seconds) / YEAR
    if cash > 0:
        growth = Decimal(1) + Decimal(r) - Decimal(m)
        amt = cash * (growth ** years - 1)
        return amt if amt > 0 else Decimal(0)     # positive balances are never charged
    growth = Decimal(1) + Decimal(r) + Decimal(m)
    return cash * (growth ** years - 1)


S = spot("S", 1.0)
DEPOSIT = 8192.0


def build(cash, pos, r, m):
    """Real broker whose idle cash is `cash` (of either sign) with NLV = 8192 > 0:
    a fully-paid holding absorbs the difference, optionally a margined position."""
    reset_clock()
    b = make_broker([S, F], deposit=DEPOSIT, markup=m, rate=r)
    if pos:
        b.transact(Trade(T0, F, pos, 100.0, 100.0, b.fees))
    left = b._holdings_quantity[b.base_currency]
    qty = (left - cash) / 100.0
    if qty:
        b.transact(Trade(T0, S, qty, 100.0, 100.0, b.fees))
    b.exchange.process_EventNBBO(EventNBBO(T0, RATE2, R2 - 0.00390625, R2 + 0.00390625))
    b.accrued_interest(T0, True)   # histories start with an initial accrual, as Broker.rebalance does
    b._mcx_rm = (r, m, 1)          # the rate and markup in force, carried with the snapshot
    return b


def ops():
    out = [("acc", i) for i in range(4)] + [("qry", i) for i in range(4)] + [("acc0",), ("qry0",), ("back",), ("reb", 1), ("reb", 2),
           ("rebt", 1, 50.0), ("rebt", 2, -50.0),      # rebalances that DO trade (can flip the sign of the cash balance)
           ("fix",), ("fees",)]     # a new fixing of the reference rate / a new fee schedule referring to another rate contract
    return out


def _hidden(b):
    # attributes the pinned Broker/Exchange do not have (caches added by a change) keep states apart; `_mcx_rm` is the harness's own tag
    from mcx.harness import hidden_state
    return tuple(h for h in hidden_state(b, [F, S]) if h[1] != "_mcx_rm")


def key(b):
    return (b._mcx_rm, round(b._holdings_quantity[b.base_currency], 6), b._last_accrual,
            round(b._holdings_margins.get(F, 0.0), 9), b._holdings_quantity.get(F, 0.0), round(b._holdings_quantity.get(S, 0.0), 9),
            _hidden(b))


def ok_amount(got, exp, cash):
    return abs(Decimal(float(got)) - exp) <= Decimal("1e-9") * abs(exp) + Decimal("1e-12") * abs(Decimal(cash))


def step(b, op, r, m):
    """Apply op on the real broker; returns messages."""
    msgs = []
    cash = b._holdings_quantity[b.base_currency]
    last = b._last_accrual
    margin = b._holdings_margins.get(F, 0.0)
    k0 = key(b)
    r, m, which = b._mcx_rm
    if op[0] == "fix":
        # published at the instant of the last accrual: the whole following period is at the new rate
        if which == 2 or r == RQ:
            return ["__skip__"]
        # quoted with a spread around RQ: the reference rate is the mid of the rate book
        b.exchange.process_EventNBBO(EventNBBO(last, RATE, RQ - 0.0078125, RQ + 0.0078125))
        b._mcx_rm = (RQ, m, 1)
        return msgs
    if op[0] == "fees":
        if which == 2:
            return ["__skip__"]
        b.fees = BrokerFees(markup=M2, interest_rate=RATE2, proportional=b.fees.proportional, fixed=b.fees.fixed)
        b._mcx_rm = (R2, M2, 2)
        return msgs
    if op[0] in ("acc", "qry", "acc0", "qry0"):
        d = DELTAS[op[1]] if len(op) > 1 else timedelta(0)
        accrue = op[0].startswith("acc")
        got = b.accrued_interest(last + d, accrue)
        exp = ref_interest(cash, r, m, d.total_seconds())
        if not ok_amount(got, exp, cash):
            msgs.append("accrued_interest(+%s, accrue=%s) on balance %r at rate %r markup %r returned %r, expected %s"
                        % (d, accrue, cash, r, m, got, exp))
        if cash > 0 and got < 0:
            msgs.append("positive balance %r was charged %r" % (cash, got))
        if accrue:
            new = b._holdings_quantity[b.base_currency]
            if not ok_amount(new - cash, exp, cash):
                msgs.append("balance moved by %r after accruing, expected %s" % (new - cash, exp))
            if b._last_accrual != last + d:
                msgs.append("last accrual time %s after accruing at %s" % (b._last_accrual, last + d))
            if d.total_seconds() == 0 and new != cash:
                msgs.append("accruing again at the same instant changed the balance from %r to %r" % (cash, new))
        else:
            if key(b) != k0 or b._holdings_quantity[b.base_currency] != cash or b._last_accrual != last:
                msgs.append("a query-only call changed the account: %r -> %r" % (k0, key(b)))
    elif op[0] == "back":
        try:
            b.accrued_interest(last - timedelta(seconds=1), True)
            msgs.append("accrual at a time earlier than the last accrual was accepted")
        except ValueError:
            pass
        if key(b) != k0 or b._holdings_quantity[b.base_currency] != cash or b._last_accrual != last:
            msgs.append("a rejected accrual changed the account: %r -> %r" % (k0, key(b)))
    elif op[0] == "rebt":
        d = DELTAS[op[1]]
        heldS = b._holdings_quantity.get(S, 0.0)
        rb = Rebalancing(contracts=[S, F], allocation=[heldS + op[2], b._holdings_quantity.get(F, 0.0)],
                         measure="nr-contracts", time=last + d)
        try:
            b.rebalance(rb)
        except EndOfEpisodeError:
            if b.net_liquidation_value(False) <= 0:
                return ["__insolvent__"]
            raise
        exp = ref_interest(cash, r, m, d.total_seconds())
        if not ok_amount(rb.profit_on_idle_cash, exp, cash):
            msgs.append("trading rebalance: profit_on_idle_cash %r, expected %s on the balance %r held during the period"
                        % (rb.profit_on_idle_cash, exp, cash))
        new = b._holdings_quantity[b.base_currency]
        if not ok_amount(new - cash + 100.0 * op[2], exp, max(abs(cash), abs(100.0 * op[2]))):
            msgs.append("trading rebalance: balance moved by %r, expected interest %s minus the cost %r of the trade (interest accrued once, on the pre-trade balance)"
                        % (new - cash, exp, 100.0 * op[2]))
        if b._last_accrual != last + d:
            msgs.append("last accrual time %s after a rebalance at %s" % (b._last_accrual, last + d))
    elif op[0] == "reb":
        d = DELTAS[op[1]]
        rb = Rebalancing(contracts=[S, F], allocation=[b._holdings_quantity.get(S, 0.0), b._holdings_quantity.get(F, 0.0)],
                         measure="nr-contracts", time=last + d)
        try:
            b.rebalance(rb)
        except EndOfEpisodeError:
            # decades of compounding debt can exceed the assets: insolvency is C09's subject
            if b.net_liquidation_value(False) <= 0:
                return ["__insolvent__"]
            raise
        exp = ref_interest(cash, r, m, d.total_seconds())
        if rb.trades:
            msgs.append("empty rebalance traded %r" % rb.trades)
        if not ok_amount(rb.profit_on_idle_cash, exp, cash):
            msgs.append("profit_on_idle_cash %r, expected %s" % (rb.profit_on_idle_cash, exp))
        new = b._holdings_quantity[b.base_currency]
        if not ok_amount(new - cash, exp, cash):
            msgs.append("balance moved by %r across an empty rebalance, expected %s" % (new - cash, exp))
    if abs(b._holdings_margins.get(F, 0.0) - margin) > 1e-9 * max(1.0, abs(margin)):
        msgs.append("posted margin changed from %r to %r (margin must earn nothing)" % (margin, b._holdings_margins.get(F, 0.0)))
    return msgs


def search(cfg, depth):
    cash, pos, r, m = cfg
    res = {"states": 0, "transitions": 0, "violations": []}
    b0 = build(cash, pos, r, m)
    if abs(b0._holdings_quantity[b0.base_currency] - cash) > 1e-9:
        res["violations"].append(((), "harness: idle cash %r differs from the configured %r" % (b0._holdings_quantity[b0.base_currency], cash)))
        return res
    seen = {key(b0)}
    frontier = deque([(snap(b0), ())])
    OPS = ops()
    while frontier:
        sb, hist = frontier.popleft()
        for op in OPS:
            b = unsnap(sb)
            try:
                msgs = step(b, op, r, m)
            except Exception as ex:
                msgs = ["operation %r raised %r" % (op, ex)]
            res["transitions"] += 1
            nh = hist + (op,)
            if msgs == ["__insolvent__"] or msgs == ["__skip__"]:
                continue
            if msgs:
                res["violations"].append((nh, "; ".join(msgs[:2])))
                continue
            k = key(b)
            if k in seen:
                continue
            seen.add(k)
            if len(nh) < depth:
                frontier.append((snap(b), nh))
    res["states"] = len(seen)
    return res


def compositions(cfg, unit, n):
    """Every way of cutting n atomic units into sub-intervals: accrue at each cut,
    a query-only call and a same-instant re-accrual at every cut; the end balance
    must equal the single-accrual balance."""
    cash, pos, r, m = cfg
    msgs_all = []
    single = build(cash, pos, r, m)
    single.accrued_interest(T0 + unit * n, True)
    want = single._holdings_quantity[single.base_currency]
    exp_total = ref_interest(cash, r, m, (unit * n).total_seconds())
    count = 0
    worst = 0.0
    for bits in range(1 << (n - 1)):
        b = build(cash, pos, r, m)
        for i in range(1, n + 1):
            if i == n or (bits >> (i - 1)) & 1:
                t = T0 + unit * i
                b.accrued_interest(t, False)
                b.accrued_interest(t, True)
                b.accrued_interest(t, True)
        got = b._holdings_quantity[b.base_currency]
        count += 1
        err = abs(got - want)
        worst = max(worst, err / max(1.0, abs(want)))
        if err > 1e-9 * max(1.0, abs(want)) or not ok_amount(got - cash, exp_total, cash * 1000):
            msgs_all.append(({"cfg": list(cfg), "unit_s": unit.total_seconds(), "n": n, "bits": bits},
                             "splitting %s x %d at cut pattern %s gives balance %r, single accrual gives %r (closed form %s)"
                             % (unit, n, bin(bits), got, want, Decimal(cash) + exp_total)))
    return count, msgs_all, worst


def _work(unit):
    kind, cfg, arg = unit
    if kind == "bfs":
        r = search(cfg, arg)
        r["kind"] = "bfs"
        r["cfg"] = cfg
        return r
    n, units = arg
    out = {"kind": "comp", "cfg": cfg, "count": 0, "violations": [], "worst": 0.0}
    for u in units:
        c, msgs, worst = compositions(cfg, u, n)
        out["count"] += c
        out["violations"] += msgs
        out["worst"] = max(out["worst"], worst)
    return out


def run(tier, **kw):
    rep = Report("C06", tier, LEVEL)
    depth = 4 if tier == "quick" else 6
    cfgs = configs(tier)
    units = [("bfs", c, depth) for c in cfgs]
    # incl. cuts that do not fall on whole seconds (rebalances driven by tick data): elapsed time is pro-rated by the second, fractions included
    comp_units = [timedelta(seconds=1), timedelta(days=1), timedelta(days=73), timedelta(days=5 * 365), timedelta(seconds=0.5), timedelta(seconds=1.5), timedelta(days=1, seconds=0.75)]
    ncomp = 6 if tier == "quick" else 8
    for c in cfgs:
        units.append(("comp", c, (ncomp, comp_units)))
    worst = 0.0
    for r in pmap(_work, units):
        if r["kind"] == "bfs":
            rep.add("states", r["states"])
            rep.add("transitions", r["transitions"])
            rep.add("traces_validated_against_impl", r["transitions"])
            for hist, msg in r["violations"]:
                rep.violation({"kind": "bfs", "cfg": list(r["cfg"]), "history": [list(o) for o in hist]},
                              "cash %r position %r rate %r markup %r, history %s: %s" % (r["cfg"] + (list(hist), msg)),
                              group=(msg.split(" ")[0], r["cfg"][0] > 0, len(hist)))
        else:
            rep.add("interval_compositions", r["count"])
            rep.add("traces_validated_against_impl", r["count"])
            worst = max(worst, r["worst"])
            for case, msg in r["violations"]:
                case["kind"] = "comp"
                rep.violation(case, msg, group=("split", case["unit_s"]))
    rep.set("worst_relative_split_error", worst)
    rep.set("configurations", len(cfgs))
    rep.set("depth", depth)
    rep.set("composition_units", ncomp)
    rep.set("alphabet", [list(o) for o in ops()])
    rep.set("exhaustive", True)
    rep.set("samples", [{"cfg": [-1024.0, 4.0, 0.05, 0.005], "history": [["acc", 2], ["qry", 1], ["back"], ["reb", 1]],
                         "meaning": "borrowed cash with a margined position: accrue 365 days, query +1 day, rejected backwards accrual, empty rebalance +1 day"}])
    rep.assumptions = ["histories start with an initial accrual (as Broker.rebalance does); whether a first-ever query may start the clock is left open",
                       "state key = (cash rounded to 1e-6, last accrual, margin, position, track-record length): interest is continuous in the balance and every transition's oracle is relative to the actual pre-state balance",
                       "amounts compared within 1e-9 relative + 1e-12 x |balance| against a 50-digit decimal closed form"]
    return rep.finish(replay)


def replay(case, **kw):
    cfg = tuple(case["cfg"])
    if case["kind"] == "bfs":
        b = build(*cfg)
        for op in case["history"]:
            try:
                msgs = step(b, tuple(op), cfg[2], cfg[3])
            except Exception as ex:
                msgs = ["operation %r raised %r" % (op, ex)]
            if msgs and msgs not in (["__insolvent__"], ["__skip__"]):
                return msgs
        return []
    c, msgs, _ = compositions(cfg, timedelta(seconds=case["unit_s"]), case["n"])
    return [m for cs, m in msgs if cs["bits"] == case["bits"]]


def probe():
    b = build(-1024.0, 4.0, 0.05, 0.005)
    out = []
    for op in [("acc", 2), ("qry", 1), ("back",), ("reb", 1), ("acc", 0)]:
        step(b, op, 0.05, 0.005)
        out.append(float(b._holdings_quantity[b.base_currency]).hex())
    return repr(out)

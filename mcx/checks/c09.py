"""C09 insolvency safety.

Fault enumeration: leveraged / short / margined positions x ruinous price paths
placed at every point of a step (latent event before the decision, non-latent
events after it, first step with non-positive cash, exact zero) x reward
functions x every follow-up call script, on the real TradingEnv, with an
independent ledger deciding when the account is insolvent."""
import itertools
import traceback
from fractions import Fraction as Fr
from mcx.envh import *  # noqa
from mcx.ledger import Ledger
from mcx.enumr import shard
from mcx.common import Report, pmap
from tradingenv.rewards import RewardSimpleReturn, RewardLogReturn, LogReturn, RewardPnL, AbstractReward

LEVEL = "fault_enumeration"
BASE = datetime(2020, 1, 6, 10, 0, 0)
NB = 7
L = 30
P0 = 64.0
SPOT = spot("X", 1.0)
FUT = fut("XF", 2.0, 0.25)
# (name, contract, weight, adverse factors, recovery factor)
POSITIONS = [("long2", SPOT, 2.0, (0.5, 0.25), 4.0), ("long3", SPOT, 3.0, (0.5, 0.25), 4.0),
             ("short1", SPOT, -1.0, (2.0, 4.0), 0.25), ("short2", SPOT, -2.0, (2.0, 4.0), 0.25),
             ("fut3", FUT, 3.0, (0.5, 0.25), 4.0), ("futshort2", FUT, -2.0, (2.0, 4.0), 0.25)]
# ruin through the decision's OWN execution: quotes with ask = 2 x bid; "step" targets +w, "step2" targets -w
POSITIONS += [("spread3", SPOT, 3.0, (2.0,), None), ("spreadfut3", FUT, 3.0, (2.0,), None)]
# ruin through the INTEREST charged when the decision arrives: yearly timesteps, 5% markup on borrowed cash, a price that leaves the
# leveraged account worth less than the year's interest (0 < NLV before the accrual <= interest due)
POSITIONS += [("interest3", SPOT, 3.0, (0.6875,), "interest")]
MARKUP = 0.05


class FlatReward(AbstractReward):
    """A user reward that does not value the account (e.g. a reward computed from the observation only)."""

    def calculate(self, env):
        return 0.0


REWARDS = {"simple": lambda: RewardSimpleReturn(), "log": lambda: RewardLogReturn(),
           "shaped": lambda: LogReturn(scale=0.5, clip=2.0, risk_aversion=0.1), "pnl": lambda: RewardPnL(),
           "flat": lambda: FlatReward()}
NON_VALUING = {"flat"}
CALLS = ["step", "step2", "reset"]

KF_STEP_RAISES = "step-raises-at-ruin:EndOfEpisodeError:step>calculate>net_liquidation_value"
KF_INDEX = "step-raises-at-ruin:IndexError:step>calculate>__getitem__"
KF_ACCEPTED = "decision-accepted-after-ruin-step-raised"
KF_LATE = "done-false-at-ruin-end-of-step:non-valuing-reward"
KF_OWN = "step-raises-at-ruin-by-own-execution:"


def grid(yearly=False):
    return [BASE + (timedelta(days=365 * i) if yearly else timedelta(minutes=i)) for i in range(NB)]


def build_events(contract, path):
    """path: dict with ruin bar r, factor f, mech ('bar'|'latent'), recovery (None|'bar'|'latent'), rec factor."""
    G = grid(path is not None and path["mech"] == "interest")
    evs = []
    p = P0
    for i, g in enumerate(G):
        if path is not None and path["mech"] == "interest":
            evs.append(EventNBBO(g, contract, p * (path["f"] if i >= path["r"] else 1.0), p * (path["f"] if i >= path["r"] else 1.0)))
            continue
        if path is not None and path["mech"] == "spread":
            # no spread before bar r-1 (the quote in force when decision r arrives), ask = f x bid from then on
            evs.append(EventNBBO(g, contract, p, p * path["f"] if i >= path["r"] - 1 else p))
            continue
        if path is not None and i == path["r"]:
            if path["mech"] == "latent":
                # adverse quote lands within the latency window after the previous bar: applied BEFORE decision i
                p = p * path["f"]
                evs.append(EventNBBO(G[i - 1] + timedelta(seconds=10), contract, p, p))
            else:
                p = p * path["f"]
        if path is not None and path["rec"] is not None and i == path["r"] + 1:
            if path["rec"] == "latent":
                p = p * path["recf"]
                evs.append(EventNBBO(G[i - 1] + timedelta(seconds=10), contract, p, p))
            else:
                p = p * path["recf"]
        evs.append(EventNBBO(g, contract, p, p))
    return G, evs


def quote_at(evs, bound):
    best = None
    for i, e in enumerate(evs):
        if e.contract.symbol == "Y":
            continue          # the never traded second contract of the tick variant
        if e.time <= bound and (best is None or (e.time, i) >= (best[0], best[1])):
            best = (e.time, i, e)
    return best[2] if best else None


def tb_signature(ex):
    names = [f.name for f in traceback.extract_tb(ex.__traceback__) if "/tradingenv/" in f.filename.replace("\\", "/")]
    return "%s:%s" % (type(ex).__name__, ">".join(names[-3:]))


def snapshot(env):
    b = env.broker
    return (tuple(sorted((str(k), float(v)) for k, v in b._holdings_quantity.items() if not isinstance(k, Cash))), len(b.track_record))


class TickValue(Feature):
    """A user feature that values the account at every quote (with raise_if_broke=False): valuations then also
    happen BETWEEN two quotes that carry the same timestamp."""

    def __init__(self):
        super().__init__(save=False)

    def process_EventNBBO(self, event):
        if self.broker is not None:
            self.broker.net_liquidation_value(False)

    def parse(self):
        return np.zeros(1)


OTHER = spot("Y", 1.0)      # a second, never traded contract quoted just before the traded one at every instant


def run_case(pos_i, path, cash, reward, script, tick=False):
    """Returns list of (message, signature-or-None)."""
    name, contract, w, _, _ = POSITIONS[pos_i]
    reset_clock()
    G, evs = build_events(contract, path)
    kw = {}
    if tick:
        evs = [x for e in evs for x in (EventNBBO(e.time, OTHER, 10.0, 10.0), e)]
        kw["state"] = [TickValue()]
    markup = MARKUP if (path is not None and path["mech"] == "interest") else 0.0
    if markup:
        kw["broker_fees"] = BrokerFees(markup=markup)
    tr = Transmitter(list(G))
    tr.add_events(list(evs))
    env = TradingEnv(BoxPortfolio([contract], -3.0, 3.0), transmitter=tr, latency=L, initial_cash=cash,
                     reward=REWARDS[reward](), **kw)
    out = []
    actions = {"step": np.array([w]), "step2": np.array([w / 2])}
    if path is not None and path["mech"] == "spread":
        actions["step2"] = np.array([-w])

    def fresh_ledger():
        return Ledger(cash, [contract.symbol])

    acc = {"last": None}

    def accrue(led, t):
        """interest charged when a decision arrives (fully-paid contract: cash = deposit + interest - cost of the position)"""
        if not markup:
            return
        if acc["last"] is not None:
            cash_ = led.D + led.I - led.K - Fr(contract.multiplier) * led.pos[contract.symbol][1]
            years = (t - acc["last"]).total_seconds() / (365 * 86400.0)
            if cash_ < 0:
                led.I += cash_ * Fr((1.0 + markup) ** years - 1.0)
        acc["last"] = t

    def nlv_at(led, bound):
        q = quote_at(evs, bound)
        v = led.D + led.I - led.K
        pos, B = led.pos[contract.symbol]
        if pos != 0:
            v += Fr(contract.multiplier) * (pos * Fr(q.bid_price if pos > 0 else q.ask_price) - B)
        else:
            v += Fr(contract.multiplier) * (-B)
        return v

    def valuation_check(led, where):
        """the broker's valuation against the ledger priced at the exchange's CURRENT quotes: an insolvent account must be reported
        as such (negative raw value, end-of-episode signal) however the decision that found it insolvent was refused"""
        book = env.exchange[contract]
        pos, B = led.pos[contract.symbol]
        want = led.D + led.I - led.K + Fr(contract.multiplier) * ((pos * Fr(book.bid_price if pos > 0 else book.ask_price) if pos != 0 else 0) - B)
        try:
            raw = env.broker.net_liquidation_value(False)
        except Exception as ex:
            out.append(("%s: valuation with raise_if_broke=False raised %r" % (where, ex), None))
            return
        if (float(raw) > 0) != (want > 0):
            # only the SIGN matters here (the amount is C01's subject): an insolvent account must not be reported solvent
            out.append(("%s: valuation returns %r but the account (recorded trades at current quotes) is worth %s" % (where, raw, float(want)), None))
        elif want <= 0:
            try:
                v = env.broker.net_liquidation_value()
                out.append(("%s: net_liquidation_value() returned %r for an account worth %s instead of signalling the end of the episode"
                            % (where, v, float(want)), None))
            except EndOfEpisodeError:
                pass

    env.reset()
    led = fresh_ledger()
    k = 0              # steps taken in this episode
    ended = False      # reference: episode over (ruin, or data exhausted)
    ruin_raised = False
    for call in script:
        if call == "reset":
            env.reset()
            led = fresh_ledger()
            acc["last"] = None
            k = 0
            ended = False
            ruin_raised = False
            if len(env.broker.track_record) != 0:
                out.append(("after reset the track record has %d entries" % len(env.broker.track_record), None))
            got = env.broker.net_liquidation_value(False)
            if float(got) != float(cash):
                out.append(("after reset NLV is %r, initial cash %r" % (got, cash), None))
            continue
        before = snapshot(env)
        ntr = len(env.broker.track_record)
        exc = None
        ret = None
        try:
            ret = env.step(actions[call])
        except Exception as ex:
            exc = ex
        after = snapshot(env)
        if ended or k + 1 >= NB:
            # the episode is over (ruin or data exhausted): the call must be refused and change nothing
            if exc is None:
                if ruin_raised and after == before and ret[2]:
                    # the ruin step raised instead of reporting done (known finding); this call reports the
                    # end late without executing anything - from here on the episode is properly over
                    ruin_raised = False
                else:
                    # the known finding covers only the case where ruin was found at the END of a step that raised (the refusal of
                    # an insolvent DECISION sets the done flag before the reward is computed, so nothing may be accepted after it)
                    sig = KF_ACCEPTED if (ruin_raised == "end" and after != before) else None
                    out.append(("step accepted after the episode had ended (returned done=%r; account %r -> %r)" % (ret[2], before, after), sig))
                    if after != before and len(env.broker.track_record) > ntr:
                        for t in env.broker.track_record[-1].trades:
                            led.trade(t.contract, t.quantity, t.bid_price, t.ask_price, 0.0, 0.0)
            else:
                if not isinstance(exc, EndOfEpisodeError):
                    sig = tb_signature(exc)
                    out.append(("step after the end raised %r instead of the end-of-episode error" % (exc,),
                                "step-raises-at-ruin:" + sig if sig.startswith("IndexError:step>calculate") else None))
                if after != before:
                    out.append(("a refused step changed the account: %r -> %r" % (before, after), None))
            k += 1 if exc is None else 0
            continue
        k += 1
        accrue(led, quote_at(evs, G[k - 1] + timedelta(seconds=L)).time)
        nlv_dec = nlv_at(led, G[k - 1] + timedelta(seconds=L))
        if nlv_dec <= 0:
            # a decision arriving insolvent executes nothing and ends the episode
            if after != before:
                out.append(("decision %d arrived with NLV %s <= 0 but the account changed: %r -> %r" % (k, float(nlv_dec), before, after), None))
            if exc is None:
                if not ret[2]:
                    out.append(("decision %d arrived with NLV %s <= 0 and the step returned done=False" % (k, float(nlv_dec)), None))
            else:
                sig = tb_signature(exc)
                out.append(("the step in which the account is found insolvent (decision-time NLV %s) raised %r instead of returning done"
                            % (float(nlv_dec), exc), "step-raises-at-ruin:" + sig))
                ruin_raised = "dec"
            ended = True
            valuation_check(led, "after the refused decision %d" % k)
            continue
        # solvent at decision time: the decision must be executed normally
        if exc is not None and after == before:
            out.append(("solvent decision %d (NLV %s) was not executed: %r" % (k, float(nlv_dec), exc), None))
            ended = True
            continue
        if len(env.broker.track_record) == ntr + 1:
            for t in env.broker.track_record[-1].trades:
                led.trade(t.contract, t.quantity, t.bid_price, t.ask_price, 0.0, 0.0)
            recorded = True
        else:
            # no (or more than one) entry: the executed trade is read from the position change, priced at the quotes in force
            # when the decision arrived (whether an executed decision must leave an entry is C07's subject, not judged here)
            recorded = False
            qd = quote_at(evs, G[k - 1] + timedelta(seconds=L))
            dq = dict(after[0]).get(str(contract), 0.0) - dict(before[0]).get(str(contract), 0.0)
            if dq != 0:
                led.trade(contract, dq, qd.bid_price, qd.ask_price, 0.0, 0.0)
        nlv_exec = nlv_at(led, G[k - 1] + timedelta(seconds=L))
        if nlv_exec <= 0:
            # the decision arrived solvent and its OWN execution (spread paid at leverage) made the account insolvent:
            # this is the step during which the account first becomes insolvent - it must report done
            if exc is None:
                if not ret[2]:
                    out.append(("decision %d arrived solvent (NLV %s), its own execution left NLV %s <= 0, and the step returned done=False"
                                % (k, float(nlv_dec), float(nlv_exec)), None))
            else:
                sig = tb_signature(exc)
                out.append(("the step whose own execution made the account insolvent (NLV %s -> %s) raised %r instead of returning done"
                            % (float(nlv_dec), float(nlv_exec), exc),
                            (KF_OWN + sig) if sig.startswith("IndexError:") else "step-raises-at-ruin:" + sig))
            # the done flag is set by the refused post-trade valuation: nothing may be accepted afterwards
            ruin_raised = "dec" if exc is not None else False
            ended = True
            valuation_check(led, "after the ruinous execution of decision %d" % k)
            continue
        if not recorded:
            out.append(("solvent decision %d produced %d track-record entries" % (k, len(env.broker.track_record) - ntr), None))
        nlv_end = nlv_at(led, G[k])
        if nlv_end <= 0:
            if exc is None:
                if not ret[2]:
                    # with a reward that values the account the pinned tree raises here (D5a); with one that does not, nothing
                    # notices the ruin before the next decision: the end is reported one call late (same defect, D5d)
                    out.append(("account insolvent at the end of step %d (NLV %s) but done=False" % (k, float(nlv_end)),
                                KF_LATE if reward in NON_VALUING else None))
                    ruin_raised = "end"
            else:
                sig = tb_signature(exc)
                out.append(("the step during which the account became insolvent (NLV %s) raised %r instead of returning done"
                            % (float(nlv_end), exc), "step-raises-at-ruin:" + sig))
                ruin_raised = "end"
            ended = True
        else:
            if exc is not None:
                out.append(("solvent step %d raised %r" % (k, exc), None))
                ended = True
            else:
                got = env.broker.net_liquidation_value(False)
                if not float(got) > 0:
                    out.append(("NLV after step %d is %r, ledger %s > 0" % (k, got, float(nlv_end)), None))
                if ret[2] != (k + 1 >= NB):
                    out.append(("step %d returned done=%r with %d bars" % (k, ret[2], NB), None))
                # valuation API
                try:
                    v = env.broker.net_liquidation_value()
                    if v <= 0:
                        out.append(("net_liquidation_value() returned non-positive %r" % v, None))
                except EndOfEpisodeError:
                    out.append(("net_liquidation_value() raised although NLV %s > 0" % float(nlv_end), None))
        if ended and exc is None:
            pass
    # broker-level valuation contract at the final state
    valuation_check(led, "final state")
    try:
        raw = env.broker.net_liquidation_value(False)
        try:
            env.broker.net_liquidation_value()
            if raw <= 0:
                out.append(("net_liquidation_value() returned %r <= 0 instead of signalling the end of the episode" % raw, None))
        except EndOfEpisodeError:
            if raw > 0:
                out.append(("net_liquidation_value() raised with NLV %r > 0" % raw, None))
    except Exception as ex:
        out.append(("valuation with raise_if_broke=False raised %r" % (ex,), None))
    return out


def paths(pos_i, tier):
    name, contract, w, adverse, recf = POSITIONS[pos_i]
    out = [None]
    rs = (1, 2, 3) if tier == "quick" else (1, 2, 3, 4)
    if recf is None or recf == "interest":
        return [{"r": r, "f": f, "mech": "interest" if recf else "spread", "rec": None, "recf": None} for r in rs for f in adverse]
    for r in rs:
        for f in adverse:
            for mech in ("bar", "latent"):
                for rec in (None, "bar", "latent"):
                    out.append({"r": r, "f": f, "mech": mech, "rec": rec, "recf": recf})
    return out


def cases(tier):
    n = 4 if tier == "quick" else 5
    scripts = [("step",) + s for s in itertools.product(CALLS, repeat=n)]
    for pos_i in range(len(POSITIONS)):
        for path in paths(pos_i, tier):
            for reward in REWARDS:
                for script in scripts:
                    yield (pos_i, path, 1024.0, reward, script)
                    if path is not None and POSITIONS[pos_i][1] is FUT and reward == "simple":
                        yield (pos_i, path, 1024.0, reward, script, True)
    # first decision refused: non-positive initial cash
    for pos_i in (0, 2, 4, 5):
        for cash in (0.0, -16.0):
            for reward in REWARDS:
                for script in [("step",) + s for s in itertools.product(CALLS, repeat=2)]:
                    yield (pos_i, None, cash, reward, script)


def _work(chunk):
    out = {"evaluations": 0, "findings": [], "nontrivial": set(), "outcomes": set()}
    for case in chunk:
        pos_i, path, cash, reward, script = case[:5]
        tick = len(case) > 5 and case[5]
        try:
            res = run_case(pos_i, path, cash, reward, script, tick)
        except Exception as ex:
            res = [("harness: case raised %r" % (ex,), None)]
        out["evaluations"] += 1
        out["outcomes"].add(hash((pos_i, str(path), cash, tick, tuple(m for m, _ in res))))
        if path is not None or cash <= 0:
            out["nontrivial"].add(hash((pos_i, str(path), cash, reward, script, tick)))
        for msg, sig in res:
            out["findings"].append(({"pos": pos_i, "path": path, "cash": cash, "reward": reward, "script": list(script), "tick": tick}, msg, sig))
    return out


def run(tier, **kw):
    rep = Report("C09", tier, LEVEL)
    cs = list(cases(tier))
    outcomes, nt = set(), set()
    for r in pmap(_work, shard(cs, 128)):
        rep.add("evaluations", r["evaluations"])
        outcomes |= r["outcomes"]
        nt |= r["nontrivial"]
        for case, msg, sig in r["findings"]:
            rep.violation(case, "%s path %s cash %s reward %s script %s: %s"
                          % (POSITIONS[case["pos"]][0], case["path"], case["cash"], case["reward"], case["script"], msg),
                          sig=sig, group=(msg.split(" ")[0], msg.split(" ")[1], case["reward"]))
    rep.set("distinct_outcomes", len(outcomes))
    rep.set("distinct_nontrivial", len(nt))
    rep.set("exhaustive", True)
    rep.set("rule", "one evaluation = one environment driven by one call script; enumerated: 6 positions (2x/3x long, 1x/2x short on a fully-paid "
                    "contract, 3x long and 2x short on a margined one) x {no ruin, adverse move at bar 1..3 x 2 sizes (exact-zero and negative NLV) x applied as a "
                    "latent quote before the decision or as the bar after it x {no recovery, recovery as bar, recovery as latent quote}} x 5 reward "
                    "functions (4 built-in, one user reward that does not value the account) x every call script step,(step|step-other|reset)^4 (quick) / ^5 (thorough); plus non-positive initial cash; plus ruin through a decision's OWN execution (ask = 2 x bid, 3x leverage, spot and margined) and ruin through the INTEREST charged when the decision arrives (yearly steps, 5% markup, 3x long); plus, for the margined positions, the same paths with a second contract quoted at every instant just before the traded one and a user feature valuing the account at every quote; "
                    "non-trivial = distinct case with a ruinous path or non-positive cash")
    rep.set("samples", [{"pos": "long2", "path": {"r": 2, "f": 0.5, "mech": "latent", "rec": None}, "cash": 1024.0, "reward": "log",
                         "script": ["step", "step", "step2", "reset", "step"],
                         "meaning": "2x long, price halves (NLV exactly 0) in a latent quote before decision 2; then further calls"}])
    rep.assumptions = ["insolvency is decided by an independent ledger fed with the recorded trades and the quotes in force (R-DELIVERY rule for latency)",
                       "no fees; spread only in the own-execution paths, interest only in the interest paths"]
    return rep.finish(replay)


def replay(case, **kw):
    res = run_case(case["pos"], case["path"], case["cash"], case["reward"], tuple(case["script"]), case.get("tick", False))
    from mcx.common import Known
    kn = Known()
    return [m for m, sig in res if not (sig and kn.match("C09", sig))]


def probe():
    res = run_case(0, {"r": 2, "f": 0.5, "mech": "latent", "rec": None, "recf": 4.0}, 1024.0, "log", ("step", "step", "step2", "reset", "step"))
    return repr(res)

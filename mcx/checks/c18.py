"""C18 the tabular environment serves exactly the data it was given.

Deviation-bounded enumeration of table shapes and TradingEnvXY settings; at
reset and every step the observation, quotes, rate and clock are compared with
the environment's own published tables env.X / env.Y."""
import itertools
import math
from mcx.envh import *  # noqa
from mcx.enumr import deviations, shard
from mcx.common import Report, pmap, close
import pandas as pd

LEVEL = "exploration"

MENUS = [
    ("ytable", ["bdays", "noholiday", "weekendrow"]),
    ("xindex", ["same", "earlier3", "later2", "everyother", "extra", "intraday"]),
    ("nan", ["none", "leadingX", "interiorX", "interiorY", "leadingY", "tieY"]),
    ("assets", [2, 1]),
    ("transformer", [None, "z-score", "yeo-johnson"]),
    ("clip", [5.0, 1.0, 0.5]),
    ("spread", [0.0, 0.01]),
    ("rate", [None, "series", "sparse", "signed"]),
    ("bounds", [None, "start", "end", "endhol", "starthol"]),
    ("folds", [None, "two"]),
    ("delay", [1, 0]),
    ("era", ["2022", "2018"]),
    ("latency", [0, 1800]),
    # another tabular environment, over the tables of the OTHER era, was built earlier in the same process
    ("prior", [None, "other-era"]),
]


ERAS = {
    # start of the tables, the exchange holiday inside them, a Saturday and a Sunday inside them
    "2022": ("2022-01-10", "2022-01-17", "2022-01-15", "2022-01-16"),      # Martin Luther King day: a rule-based holiday
    "2018": ("2018-11-26", "2018-12-05", "2018-12-01", "2018-12-02"),      # national day of mourning: a ONE-OFF closure of the NYSE
}


def era(cfg):
    start, hol, sat, sun = ERAS[cfg.get("era", "2022")]
    return start, pd.Timestamp(hol), pd.Timestamp(sat), pd.Timestamp(sun)


def tables(cfg, ndays=14):
    start, HOL, SAT, SUN = era(cfg)
    idx = pd.bdate_range(start, periods=ndays)          # contains the exchange holiday of the era
    yidx = idx
    if cfg["ytable"] == "noholiday":
        yidx = idx[idx != HOL]
    elif cfg["ytable"] == "weekendrow":
        yidx = idx.union(pd.DatetimeIndex([SAT]))
    n = len(yidx)
    Y = pd.DataFrame({"a": 100.0 + 1.5 * np.arange(n) + np.sin(np.arange(n)), "b": 50.0 - 0.25 * np.arange(n)}, index=yidx)
    if cfg["assets"] == 1:
        Y = Y[["a"]]
    xi = cfg["xindex"]
    if xi == "same":
        xidx = yidx
    elif xi == "earlier3":
        xidx = pd.bdate_range(idx[0] - pd.Timedelta(days=5), idx[-1])
    elif xi == "later2":
        xidx = idx[2:]
    elif xi == "everyother":
        xidx = idx[::2]
    elif xi == "intraday":
        # a second feature row a quarter of an hour after every date (inside a latency window of half an hour)
        xidx = idx.union(idx + pd.Timedelta(minutes=15))
    else:
        xidx = idx.union(pd.DatetimeIndex([SUN, idx[-1] + pd.Timedelta(days=1)]))
    m = len(xidx)
    X = pd.DataFrame({"f1": np.linspace(-2.0, 9.0, m), "f2": np.cos(np.arange(m)) * 3.0, "f3": np.arange(m) % 3 - 1.0}, index=xidx)
    if cfg["nan"] == "leadingX":
        X.iloc[0:2, 0] = np.nan
    elif cfg["nan"] == "interiorX":
        X.iloc[4, :] = np.nan
        X.iloc[6, 1] = np.nan
    elif cfg["nan"] == "interiorY":
        Y.iloc[5, 0] = np.nan
    elif cfg["nan"] == "leadingY":
        Y.iloc[0, :] = np.nan
    elif cfg["nan"] == "tieY":
        # unchanged closes: on the first date of the second fold (last asset) and on the fourth date (first asset)
        Y.iloc[9, -1] = Y.iloc[8, -1]
        Y.iloc[3, 0] = Y.iloc[2, 0]
    rate = None
    if cfg["rate"] == "signed":
        # a rate path that falls to zero and below (zero-rate and negative-rate eras) and comes back
        rate = pd.Series([(0.0025, 0.0, -0.005, -0.005, 0.0, 0.01)[i % 6] for i in range(len(idx))], index=idx, name="rf")
    if cfg["rate"] in ("series", "sparse"):
        rate = pd.Series(0.01 + 0.002 * np.arange(len(idx)), index=idx, name="rf")
        if cfg["rate"] == "sparse":
            rate = rate.iloc[[0, 1, 4, 5, 9, len(idx) - 1]]       # fixings published on some dates only
    return X, Y, rate, idx


def build(cfg):
    from tradingenv.env import TradingEnvXY
    memo_calendars()
    reset_clock()
    X, Y, rate, idx = tables(cfg, cfg.get("ndays", 14))
    kw = {}
    if cfg["bounds"] == "start":
        kw["start"] = idx[3]
    elif cfg["bounds"] == "end":
        kw["end"] = idx[-3]
    elif cfg["bounds"] == "endhol":
        kw["end"] = era(cfg)[1]      # the range ends exactly on an exchange holiday
    elif cfg["bounds"] == "starthol":
        kw["start"] = era(cfg)[1]    # ... or starts on it
    if cfg["folds"] == "two":
        cut = 8 if len(idx) <= 16 else (2 * len(idx)) // 3
        kw["folds"] = {"training-set": [idx[0].to_pydatetime(), idx[cut].to_pydatetime()],
                       "test-set": [idx[cut + 1].to_pydatetime(), idx[-1].to_pydatetime()]}
    env = TradingEnvXY(X.copy(), Y.copy(), transformer=cfg["transformer"], transformer_end=idx[7 if len(idx) <= 16 else len(idx) // 2], window=cfg["window"],
                       stride=cfg["stride"], clip=cfg["clip"], spread=cfg["spread"], rate=rate, steps_delay=cfg["delay"],
                       latency=cfg.get("latency", 0), **kw)
    return env, X, Y, rate, idx


def holidays():
    import pandas_market_calendars as pmc
    return set(pd.Timestamp(h) for h in pmc.get_calendar("NYSE").holidays().holidays)


_HOL = []


def check_point(env, cfg, Xin, Yin, rate, obs, prev_now, first, first_now=None):
    """One observation point (after reset or a step)."""
    if not _HOL:
        _HOL.append(holidays())
    msgs = []
    now = pd.Timestamp(env.now())
    w, stride = cfg["window"], cfg["stride"]
    # ---- clock
    if now not in env.Y.index:
        msgs.append("step on %s, which is not a date of the price table" % now.date())
    if now in _HOL[0]:
        msgs.append("step on exchange holiday %s" % now.date())
    if prev_now is not None and not (now > prev_now):
        msgs.append("clock did not advance: %s after %s" % (now, prev_now))
    # ---- observation
    rows = env.X.loc[:now]
    if len(rows) < w:
        msgs.append("step on %s but only %d rows of features are dated on or before it (window %d)" % (now.date(), len(rows), w))
    else:
        exp = rows.iloc[-w:].values
        if stride:
            exp = exp[::-stride][::-1]
        got = np.asarray(obs)
        if got.shape != env.observation_space.shape:
            msgs.append("observation shape %r, declared %r" % (got.shape, env.observation_space.shape))
        elif got.shape != exp.shape or not np.array_equal(got, exp):
            msgs.append("observation on %s is %r, the last %d rows (stride %r) of env.X dated <= now are %r"
                        % (now.date(), got.tolist(), w, stride, exp.tolist()))
        if not env.observation_space.contains(got.astype(env.observation_space.dtype)):
            msgs.append("observation outside the declared bounds")
        if np.abs(got).max() > cfg["clip"] + 1e-12:
            msgs.append("observation %r exceeds the clip value %r" % (float(np.abs(got).max()), cfg["clip"]))
    # ---- quotes
    for col in env.Y.columns:
        series = env.Y[col].loc[:now].dropna()
        if len(series) == 0:
            continue
        p = series.iloc[-1]
        book = env.exchange[col]
        half = p * cfg["spread"] / 2
        if not (close(book.bid_price, p - half, 1e-12) and close(book.ask_price, p + half, 1e-12)):
            msgs.append("quote of %s on %s is %r/%r, given price %r with spread %r -> %r/%r"
                        % (col, now.date(), book.bid_price, book.ask_price, p, cfg["spread"], p - half, p + half))
        # env.Y must be the given prices
        name = str(col.symbol)
        if name in Yin.columns and now in Yin.index:
            g = Yin.loc[now, name]
            if not (g != g) and not close(env.Y.loc[now, col], g, 1e-12):
                msgs.append("env.Y[%s] on %s is %r, given %r" % (name, now.date(), env.Y.loc[now, col], g))
    # ---- rate
    rbook = env.exchange[env._broker_fees.interest_rate]
    if rate is None:
        if rbook.mid_price != 0.0:
            msgs.append("reference rate is %r although no rate was given" % rbook.mid_price)
    else:
        r = rate.loc[:now]
        first_step = pd.Timestamp(min(env._transmitter.timesteps)) if first_now is None else first_now
        if len(r):
            ok = close(rbook.mid_price, r.iloc[-1], 1e-12)
            # a fixing published before the episode's first step need not have been replayed (markov reset / warm-up
            # horizon): the seeded 0 is then accepted too.  A rate dated AFTER now is never acceptable.
            if not ok and r.index[-1] < first_step and rbook.mid_price == 0.0:
                ok = True
            if not ok:
                msgs.append("reference rate on %s is %r, last given fixing (%s) %r" % (now.date(), rbook.mid_price, r.index[-1].date(), r.iloc[-1]))
        elif rbook.mid_price != 0.0:
            msgs.append("reference rate on %s is %r although no fixing has been published yet" % (now.date(), rbook.mid_price))
    return msgs


def independent_X(cfg, Xin, Yin, env):
    """For transformer=None re-derive the published table: union index, forward fill, zero fill, clip."""
    X = Xin.reindex(Xin.index.union(Yin.index))
    # features are kept up to the requested end bound (not beyond the last valid price date)
    end = Yin.last_valid_index()
    if cfg["bounds"] == "end":
        end = min(end, pd.bdate_range(era(cfg)[0], periods=cfg.get("ndays", 14))[-3])
    elif cfg["bounds"] == "endhol":
        end = min(end, era(cfg)[1])
    X = X.loc[:end]
    X = X.ffill().fillna(0.0).clip(-cfg["clip"], cfg["clip"])
    return X


def run_config(cfg):
    if cfg.get("prior"):
        other = {n: a[0] for n, a in MENUS}
        other.update({"window": 1, "stride": None, "era": "2018" if cfg.get("era", "2022") == "2022" else "2022"})
        try:
            build(other)
        except Exception:
            pass
    try:
        env, Xin, Yin, rate, idx = build(cfg)
    except Exception as ex:
        return None, "constructor refused: %s" % type(ex).__name__
    msgs = []
    if cfg["transformer"] is None:
        try:
            ind = independent_X(cfg, Xin, Yin, env)
            common = env.X.index.intersection(ind.index)
            if len(common) != len(env.X.index) or not np.allclose(env.X.values, ind.loc[env.X.index].values, rtol=0, atol=1e-12):
                pass   # how env.X derives from the input table is C02's subject (look-ahead), not C18's: the statement is relative to the PUBLISHED table
        except Exception as ex:
            msgs.append("re-deriving env.X raised %r" % (ex,))
    # a single fold is played twice; with two folds the episodes alternate (train, test, train, test): what one episode leaves behind in the
    # transmitter must not reach the next one
    folds = ["training-set", "test-set", "training-set", "test-set"] if cfg["folds"] == "two" else ["training-set", "training-set"]
    nsteps = 0
    for fold in folds:
        try:
            obs = env.reset(fold=fold)
        except BaseException as ex:
            lo, hi = env._transmitter._folds[fold]
            inside = [t for t in env._transmitter.timesteps if lo <= t <= hi]
            if not inside:
                continue    # the fold holds no timestep of this table (bounds cut it away): refusing is fine
            msgs.append("reset(%s) raised %r" % (fold, ex))
            break
        prev = None
        first_now = pd.Timestamp(env.now())
        msgs += ["%s reset: %s" % (fold, m) for m in check_point(env, cfg, Xin, Yin, rate, obs, prev, True, first_now)]
        prev = pd.Timestamp(env.now())
        k = 0
        n = len(env.Y.columns)
        while not env._done and not msgs and k < 60:
            a = np.array([0.5, -0.25][:n]) if k % 2 == 0 else np.array([-0.5, 1.0][:n])
            try:
                obs, r, d, info = env.step(a)
            except Exception as ex:
                msgs.append("%s step %d raised %r" % (fold, k, ex))
                break
            nsteps += 1
            msgs += ["%s step %d: %s" % (fold, k, m) for m in check_point(env, cfg, Xin, Yin, rate, obs, prev, False, first_now)]
            prev = pd.Timestamp(env.now())
            k += 1
        if msgs:
            break
    return msgs, nsteps


def configs(tier):
    if tier == "quick":
        crossed = [(w, s) for w in (1, 2, 3) for s in (None, 2)] + [(2, 3), (3, 3)]
        bound = 2
    else:
        crossed = [(w, s) for w in (1, 2, 3, 4) for s in (None, 1, 2, 3)]
        bound = 3
    for w, s in crossed:
        for cost, dev in deviations(MENUS, bound):
            if tier == "thorough" and cost == 3 and (w, s) not in ((2, None), (3, 2), (4, 3)):
                continue
            cfg = dict(dev)
            cfg["window"], cfg["stride"] = w, s
            yield cfg
    # long windows (the statement quantifies over window 1..30), also resetting into a later fold,
    # where the warm-up horizon - not the first timestep's history - must supply the whole window
    big = [(7, None), (7, 3), (9, 8), (12, 4)] if tier == "quick" else \
        [(w, s) for w in (5, 7, 8, 9, 12, 13, 20, 21, 30) for s in (None, 2, 3, 4, 7, 8)]
    for w, s in big:
        for folds in (None, "two"):
            for tname in ((None,) if tier == "quick" else (None, "z-score")):
                cfg = {n: a[0] for n, a in MENUS}
                cfg.update({"window": w, "stride": s, "transformer": tname, "ndays": 60 if tier == "quick" else 90, "folds": folds})
                yield cfg


def _work(chunk):
    out = {"evaluations": 0, "violations": [], "nontrivial": set(), "steps": 0, "refused": 0}
    for cfg in chunk:
        try:
            msgs, n = run_config(cfg)
        except Exception as ex:
            msgs, n = ["harness raised %r" % (ex,)], 0
        if msgs is None:
            out["refused"] += 1
            continue
        out["evaluations"] += 1
        out["steps"] += n
        if n:
            out["nontrivial"].add(tuple(sorted((k, str(v)) for k, v in cfg.items())))
        if msgs:
            out["violations"].append((cfg, "config %s: %s" % ({k: v for k, v in cfg.items() if v != dict(MENUS).get(k, [None])[0]}, "; ".join(msgs[:2])),
                                      (msgs[0].split(":")[-1].strip().split(" ")[0], cfg["window"], cfg["transformer"])))
    return out


def run(tier, **kw):
    rep = Report("C18", tier, LEVEL)
    cs = list(configs(tier))
    nt = set()
    for r in pmap(_work, shard(cs, 96)):
        rep.add("evaluations", r["evaluations"])
        rep.add("observation_points", r["steps"])
        rep.add("configurations_refused_by_constructor", r["refused"])
        nt |= r["nontrivial"]
        for case, msg, group in r["violations"]:
            rep.violation(case, msg, group=group)
    rep.set("distinct_nontrivial", len(nt))
    rep.set("deviation_bound_completed", 2 if tier == "quick" else 3)
    rep.set("exhaustive", True)
    rep.set("rule", "window x stride fully crossed (quick {1,2,3}x{none,2}; thorough {1..4}x{none,1,2,3} plus windows up to 30 on a 70-day table) times every "
                    "assignment of {price-table shape (holiday row, weekend row), feature-index shape (same, earlier, later, every other row, extra rows), NaN pattern, "
                    "1-2 assets, an environment of the other era built first in the same process, transformer (none, z-score, yeo-johnson), clip (5,1,0.5), spread, rate series, start/end bound, two folds, delay} with at most "
                    "`deviation_bound_completed` non-default choices, on tables of 14 business days spanning NYSE's 2022-01-17 holiday (rule-based) or its 2018-12-05 one-off closure; non-trivial = distinct "
                    "configuration that executed at least one step")
    rep.set("samples", [cs[0], cs[len(cs) // 3], cs[-1]])
    rep.assumptions = ["compared against the environment's own published env.X / env.Y; how env.X derives from the input table is outside the statement (C02 covers look-ahead in that derivation)",
                       "configurations whose constructor raises are counted as refused, not as violations (the statement is about served steps)",
                       "holiday table = pandas_market_calendars NYSE (third-party, memoised)"]
    return rep.finish(replay)


def replay(case, **kw):
    msgs, _ = run_config(case)
    return msgs or []


def probe():
    cfg = {n: a[0] for n, a in MENUS}
    cfg.update({"window": 3, "stride": 2, "transformer": "z-score", "nan": "interiorX", "spread": 0.01})
    env, *_ = build(cfg)
    o = env.reset()
    out = [o.tobytes().hex()]
    while not env._done:
        o, r, d, i = env.step(np.array([0.5, -0.25]))
        out.append((str(env.now()), o.tobytes().hex(), float(r).hex()))
    return repr(out)

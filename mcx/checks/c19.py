"""C19 futures calendars: whole-domain enumeration of (class, year, month) and a
lattice of chain spans, against a calendar-only reference (R-CALENDAR)."""
from mcx.common import setup_path, Report, pmap
setup_path()
import calendar as _cal
from datetime import datetime, date, timedelta

from tradingenv import contracts as K
from tradingenv.events import EventContractDiscontinued

LEVEL = "exploration"
CLASSES = ["ES", "NK", "VX", "ZQ", "ZT", "ZF", "ZN", "ZB"]
TREASURIES = {"ZQ", "ZT", "ZF", "ZN", "ZB"}
CODES = "FGHJKMNQUVXZ"
Y0, Y1 = 1970, 2099


def nth_weekday(year, month, weekday, n):
    """n-th (1-based) given weekday (Mon=0) of the month, stdlib only."""
    first = date(year, month, 1)
    shift = (weekday - first.weekday()) % 7
    return first + timedelta(days=shift + 7 * (n - 1))


def last_weekday_of_month(year, month):
    d = date(year, month, _cal.monthrange(year, month)[1])
    while d.weekday() >= 5:
        d -= timedelta(days=1)
    return d


def ref_expiry(name, year, month):
    if name == "ES":
        return nth_weekday(year, month, 4, 3)
    if name == "NK":
        return nth_weekday(year, month, 4, 2)
    if name == "VX":
        ny, nm = (year + 1, 1) if month == 12 else (year, month + 1)
        return nth_weekday(ny, nm, 4, 3) - timedelta(days=30)
    if name in TREASURIES:
        return last_weekday_of_month(year, month)
    raise KeyError(name)


def as_date(x):
    return x.date() if hasattr(x, "date") and callable(x.date) else x


def as_dt(x):
    if hasattr(x, "to_pydatetime"):
        return x.to_pydatetime()
    return x


def check_contract(name, year, month):
    cls = getattr(K, name)
    msgs = []
    try:
        c = cls(year, month)
    except Exception as ex:
        return ["%s(%d,%d) raised %r" % (name, year, month, ex)]
    exp = ref_expiry(name, year, month)
    if as_date(c.expiry) != exp:
        msgs.append("%s(%d,%d).expiry = %s, rule says %s" % (name, year, month, c.expiry, exp))
    if as_dt(c.expiry) != datetime(exp.year, exp.month, exp.day):
        msgs.append("%s(%d,%d).expiry %r is not midnight of the rule date" % (name, year, month, c.expiry))
    if name == "VX" and as_date(c.expiry).weekday() != 2:
        msgs.append("VX(%d,%d) expires on weekday %d, not a Wednesday" % (year, month, as_date(c.expiry).weekday()))
    if not (as_dt(c.last_trading_date) < as_dt(c.expiry)):
        msgs.append("%s(%d,%d) last trading date %s not strictly before expiry %s" % (name, year, month, c.last_trading_date, c.expiry))
    sym = "%s%s%02d" % (name, CODES[month - 1], year % 100)
    if c.symbol != sym:
        msgs.append("%s(%d,%d).symbol = %r, expected %r" % (name, year, month, c.symbol, sym))
    ev = c.make_events()
    if not (len(ev) == 1 and isinstance(ev[0], EventContractDiscontinued) and ev[0].time == c.expiry and ev[0].contract is c):
        msgs.append("%s(%d,%d).make_events() = %r" % (name, year, month, ev))
    return msgs


def check_chain(name, start, end, month_offset):
    cls = getattr(K, name)
    msgs = []
    try:
        chain = K.FutureChain(cls, start, end, month=month_offset)
    except Exception as ex:
        return ["FutureChain(%s, %s, %s) raised %r" % (name, start, end, ex)], 0
    cs = chain.contracts
    for a, b in zip(cs, cs[1:]):
        if not (as_dt(a.expiry) < as_dt(b.expiry)):
            msgs.append("chain %s %s..%s: expiry not strictly increasing at %s -> %s" % (name, start, end, a.symbol, b.symbol))
            break
        if not (as_dt(a.last_trading_date) < as_dt(b.last_trading_date)):
            msgs.append("chain %s %s..%s: last trading date not strictly increasing at %s -> %s" % (name, start, end, a.symbol, b.symbol))
            break
    by_sym = {}
    for c in cs:
        by_sym.setdefault(c.symbol, []).append(as_dt(c.expiry))
    for sym, exps in by_sym.items():
        exps.sort()
        for a, b in zip(exps, exps[1:]):
            if b.year - a.year < 100:
                msgs.append("chain %s: symbol %s used twice within a century (%s, %s)" % (name, sym, a, b))
    for c in cs:
        y, m = as_dt(c.expiry).year, as_dt(c.expiry).month
        if as_date(c.expiry) != ref_expiry(name, y, m):
            msgs.append("chain %s lists %s expiring %s, rule says %s" % (name, c.symbol, c.expiry, ref_expiry(name, y, m)))
            break
    if start.day == 1 and end.month == 12 and end.day == 31 and month_offset == 0:
        # the same span given as 'YYYY-MM' strings must list the same contracts
        try:
            c2 = K.FutureChain(cls, start.strftime("%Y-%m"), end.strftime("%Y-%m-%d"))
            if [c.symbol for c in c2.contracts] != [c.symbol for c in cs]:
                msgs.append("chain %s built from strings %s..%s differs from the one built from datetimes" % (name, start.strftime("%Y-%m"), end.date()))
        except Exception as ex:
            msgs.append("chain %s from string dates raised %r" % (name, ex))
    # completeness: one contract per listing period (quarter end for ES/NK/Treasuries, month end for VX)
    # whose period end lies inside [start, end], no more, no less
    want = []
    y, m = start.year, start.month
    while (y, m) <= (end.year, end.month):
        last_day = _cal.monthrange(y, m)[1]
        pe = datetime(y, m, last_day)
        if start <= pe <= end and (name == "VX" or m in (3, 6, 9, 12)):
            want.append((y, m))
        y, m = (y + 1, 1) if m == 12 else (y, m + 1)
    got_months = []
    for c in cs:
        code = c.symbol[len(name)]
        got_months.append(CODES.index(code) + 1 if code in CODES else None)
    if len(cs) != len(want) or got_months != [mm for _, mm in want]:
        msgs.append("chain %s %s..%s lists %d contracts with month codes %s, expected one per listing period ending in the span: %s"
                    % (name, start.date(), end.date(), len(cs), [c.symbol for c in cs][:6], want[:6]))
    # asked twice (every environment built on the chain asks again), then each contract on its own
    for attempt in ("first", "second", "clock moved past the span"):
        if attempt.startswith("clock"):
            # the process-wide contract clock (advanced by any environment that ran before) must not change the list
            K.AbstractContract.now = as_dt(cs[-1].expiry) + timedelta(days=400) if cs else datetime(2100, 1, 1)
        ev = chain.make_events()
        per = {}
        for e in ev:
            if not isinstance(e, EventContractDiscontinued):
                msgs.append("chain %s: unexpected event %r" % (name, e))
                continue
            per.setdefault(id(e.contract), []).append(e)
        for c in cs:
            es = per.get(id(c), [])
            if len(es) != 1 or es[0].time != c.expiry:
                msgs.append("chain %s (%s make_events call): contract %s has %d discontinuation events %r (expiry %s)"
                            % (name, attempt, c.symbol, len(es), [e.time for e in es], c.expiry))
                break
        if len(ev) != len(cs):
            msgs.append("chain %s %s..%s (%s make_events call): %d events for %d contracts" % (name, start, end, attempt, len(ev), len(cs)))
        if msgs:
            break
    K.AbstractContract.now = datetime.min
    for c in (cs[:2] + cs[-1:]) if not msgs else []:
        own = c.make_events()
        if not (len(own) == 1 and own[0].time == c.expiry and own[0].contract is c):
            msgs.append("chain %s: after the chain's events were made, contract %s reports %d events of its own" % (name, c.symbol, len(own)))
    return msgs, len(cs)


def spans(tier):
    out = []
    lengths = [1, 2, 5, 30, 130]
    for y in range(Y0, Y1 + 1):
        for L in lengths:
            if y + L - 1 > Y1:
                continue
            if tier == "quick" and L >= 5 and (y - Y0) % 10 != 0:
                continue
            if tier == "quick" and L < 5 and (y - Y0) % 2 != 0:
                continue
            for mo in (0, 1, 2):
                out.append((y, L, mo))
    return out


def _work(unit):
    kind, name, tier = unit
    out = {"evaluations": 0, "violations": [], "nontrivial": 0, "contracts_in_chains": 0}
    if kind == "single":
        for y in range(Y0, Y1 + 1):
            for m in range(1, 13):
                msgs = check_contract(name, y, m)
                out["evaluations"] += 1
                out["nontrivial"] += 1
                if msgs:
                    out["violations"].append(({"kind": "single", "cls": name, "year": y, "month": m}, "; ".join(msgs)))
    else:
        for (y, L, mo) in spans(tier):
            start = datetime(y, 1 + mo, 1)
            end = datetime(y + L - 1, 12, 31)
            variants = [(start, end)]
            if L <= 2:
                # spans that start / end exactly on a listing-period end, or in the middle of a period
                variants += [(datetime(y, 3, 31), datetime(y + L - 1, 9, 30)), (datetime(y, 3 + mo, 15), datetime(y + L - 1, 11, 15))]
            for (start, end) in variants:
              for month_offset in (0, 1):
                msgs, n = check_chain(name, start, end, month_offset)
                out["evaluations"] += 1
                out["contracts_in_chains"] += n
                if n >= 2:
                    out["nontrivial"] += 1
                if msgs:
                    out["violations"].append(({"kind": "chain", "cls": name, "start": start.isoformat(),
                                               "end": end.isoformat(), "month_offset": month_offset}, "; ".join(msgs[:3])))
    return out


def run(tier, **kw):
    rep = Report("C19", tier, LEVEL)
    units = [("single", n, tier) for n in CLASSES] + [("chain", n, tier) for n in CLASSES]
    for r in pmap(_work, units):
        rep.add("evaluations", r["evaluations"])
        rep.add("distinct_nontrivial", r["nontrivial"])
        rep.add("contracts_in_chains", r["contracts_in_chains"])
        for case, msg in r["violations"]:
            rep.violation(case, msg, group=(case["kind"], case["cls"]))
    rep.set("rule", "single: every (class, year, month) for 8 built-in classes x 1970..2099 x 12 (the whole domain, 12480, each distinct and "
                    "non-trivial); chain: every class x start year on the lattice x span length {1,2,5,30,130} years x start-month offset "
                    "{0,1,2} x chain month offset {0,1}; a chain case is non-trivial when it lists >= 2 contracts")
    rep.set("exhaustive", True)
    rep.set("samples", [{"kind": "single", "cls": "VX", "year": 2020, "month": 10, "expected_expiry": "2020-10-21"},
                        {"kind": "chain", "cls": "ES", "start": "1997-01-01", "end": "2001-12-31", "month_offset": 0}])
    rep.assumptions = ["reference calendar = stdlib datetime/calendar only (n-th weekday, last Mon-Fri of month)",
                       "exchange holidays are not modelled by the library nor by the statement"]
    return rep.finish(replay)


def replay(case, **kw):
    if case["kind"] == "single":
        return check_contract(case["cls"], case["year"], case["month"])
    msgs, _ = check_chain(case["cls"], datetime.fromisoformat(case["start"]), datetime.fromisoformat(case["end"]), case["month_offset"])
    return msgs


def probe():
    return repr([(n, str(getattr(K, n)(2021, 6).expiry), str(getattr(K, n)(2021, 6).last_trading_date)) for n in CLASSES])

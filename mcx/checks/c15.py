"""C15 episodes stay inside their fold; episode length and walk-forward exact.

Bounded-exhaustive: grids (with event-less points) x EVERY fold window over grid
points and midpoints x every episode length x every start the implementation
offers (through the chooser seam); all walk-forward parameters up to N=14."""
import itertools
from mcx.envh import *  # noqa
from mcx.enumr import shard
from mcx.common import Report, pmap

LEVEL = "exploration"
BASE = datetime(2020, 1, 6, 10, 0, 0)


def grid(n):
    return [BASE + timedelta(minutes=i) for i in range(n)]


def grid_ms(n):
    """four event-bearing timesteps per second"""
    return [BASE + timedelta(milliseconds=250 * i) for i in range(n)]


def cut_points(G):
    pts = [G[0] - timedelta(seconds=30)]
    for a, b in zip(G, G[1:]):
        pts += [a, a + (b - a) / 2]
    pts += [G[-1], G[-1] + timedelta(seconds=30)]
    return pts


LATENCY = 30


def make(G, eventless, fold, n, span, fold2=None, latent_only=None, grown=None):
    reset_clock()
    bearing = [g for i, g in enumerate(G) if i not in eventless]
    if grown is not None:
        # the transmitter is first used (an environment built on it, reset and stepped) while grid point `grown` is still
        # event-less; its bar is added afterwards and a NEW environment is built on the same transmitter
        folds = {"training-set": list(fold)}
        tr = Transmitter(list(G), folds=folds)
        tr.add_events(bar_events([g for g in bearing if g != G[grown]], [A]))
        env0 = TradingEnv(BoxPortfolio([A], -1, 1), transmitter=tr)
        try:
            env0.reset()
            env0.step(np.zeros(1))
        except BaseException:
            pass
        tr.add_events([EventNBBO(G[grown], A, 70.0, 71.0)])
        env = TradingEnv(BoxPortfolio([A], -1, 1), transmitter=tr, episode_length=n, sampling_span=span)
        return env, bearing
    folds = {"training-set": list(fold)}
    if fold2 is not None:
        folds["other"] = list(fold2)
    given = list(G)
    if span == 2:
        # the grid is handed over unsorted and with a duplicate (the statement quantifies over all grids)
        given = given[1::2] + given[0::2] + [given[0]]
    tr = Transmitter(given, folds=folds)
    if latent_only is not None:
        # grid point `latent_only` carries no bar; its only event is a quote stamped 10 s after the PREVIOUS grid
        # point, i.e. inside the latency window: the point is event-bearing through a latent event alone
        bars = [g for g in bearing if g != G[latent_only]]
        tr.add_events(bar_events(bars, [A]))
        tr.add_events([EventNBBO(G[latent_only - 1] + timedelta(seconds=10), A, 77.0, 77.0)])
        env = TradingEnv(BoxPortfolio([A], -1, 1), transmitter=tr, episode_length=n, sampling_span=span, latency=LATENCY)
        return env, bearing
    tr.add_events(bar_events(bearing, [A]))
    env = TradingEnv(BoxPortfolio([A], -1, 1), transmitter=tr, episode_length=n, sampling_span=span)
    return env, bearing


def run_case(G, eventless, fold, n, span, fold2=None, which="training-set", latent_only=None, descending=False, grown=None, relen=None):
    """Returns (messages, number of episodes executed, outcome signature)."""
    msgs = []
    env, bearing = make(G, eventless, fold, n, span, fold2, latent_only, grown)
    reset_kw = {}
    if relen is not None and relen < 0:
        # the other way round: ONE episode asked with an explicit length (-relen decisions) through reset(episode_length=...),
        # then plain resets - which are again episodes of the CONFIGURED n decisions (or the whole fold when none is configured)
        with ChoiceSeam(pick=0):
            try:
                env.reset(fold=which, episode_length=-relen + 1)
            except BaseException:
                pass
    elif relen is not None:
        # the environment is configured for n decisions and used once that way; every following episode asks for
        # `relen` decisions through reset(episode_length=...): the starts offered must be those of the NEW length
        with ChoiceSeam(pick=0):
            try:
                env.reset(fold=which)
            except BaseException:
                pass
        n = relen
        reset_kw = {"episode_length": relen + 1}      # reset() counts STATES (documented), the constructor counts decisions

    def shown(step):
        # what env.now() shows when the episode stands on `step`
        if latent_only is not None and step == G[latent_only]:
            return G[latent_only - 1] + timedelta(seconds=10)
        return step
    window = fold if which == "training-set" else fold2
    fold_steps = [g for g in bearing if window[0] <= g <= window[1]]
    episodes = 0
    sig = []
    if n is None:
        picks = [0]
    else:
        ncand = len(fold_steps) - n
        picks = list(range(ncand)) if ncand > 0 else [0]
        if descending:
            picks = picks[::-1]      # later episodes first: state left behind by them must not change earlier-starting ones
    for pick in picks:
        with ChoiceSeam(pick=pick) as seam:
            try:
                env.reset(fold=which, **reset_kw)
                refused = None
            except BaseException as ex:  # StopIteration is not an Exception subclass issue; catch all
                refused = ex
        if n is not None:
            ncand = len(fold_steps) - n
            if ncand <= 0:
                if refused is None:
                    msgs.append("episode of %d decisions does not fit in a fold of %d steps but reset was accepted (now=%s)"
                                % (n, len(fold_steps), env.now()))
                episodes += 1
                sig.append(("refused", type(refused).__name__ if refused else None))
                continue
            if refused is not None:
                msgs.append("reset refused (%r) although %d start positions fit" % (refused, ncand))
                continue
            if not seam.calls:
                msgs.append("episode length set but no start was drawn through numpy.random.choice (cannot enumerate starts)")
                continue
            cand, p = seam.calls[0]
            if list(cand) != list(range(ncand)):
                msgs.append("start candidates offered %r, expected exactly the %d positions where %d decisions fit" % (list(cand), ncand, n))
            if p is not None and (len(p) != len(cand) or any(not (x > 0) for x in p) or abs(sum(p) - 1) > 1e-9):
                msgs.append("start probabilities %r: every fitting position must be drawable" % (p,))
            expect = fold_steps[pick:pick + n + 1]
        else:
            if not fold_steps:
                if refused is None and not env._done:
                    msgs.append("fold without any event-bearing timestep but reset produced a live episode")
                episodes += 1
                sig.append(("empty", type(refused).__name__ if refused else None))
                continue
            if refused is not None:
                msgs.append("reset of a non-empty fold refused: %r" % (refused,))
                continue
            expect = fold_steps
        visited = [env.now()]
        decisions = 0
        try:
            while not env._done and decisions < 40:
                o, r, d, i = env.step(np.zeros(1))
                decisions += 1
                visited.append(env.now())
        except Exception as ex:
            msgs.append("step raised %r" % (ex,))
        episodes += 1
        sig.append(tuple(str(v) for v in visited))
        expect_shown = [shown(e) for e in expect]
        if visited != expect_shown:
            msgs.append("fold [%s, %s], n=%s, start #%d: visited %s, expected %s"
                        % (window[0].time(), window[1].time(), n, pick, [str(v.time()) for v in visited], [str(v.time()) for v in expect]))
        if any(not (window[0] <= v <= window[1]) for v, e in zip(visited, expect_shown) if v == e and e in G):
            msgs.append("timestep outside the fold window [%s, %s]: %s" % (window[0], window[1], [str(v) for v in visited]))
        if n is not None and decisions != n:
            msgs.append("episode length %d configured but the episode had %d decisions" % (n, decisions))
        if msgs:
            break
    return msgs, episodes, hash(tuple(sig))


def check_long(size, span, n, picks):
    """A LONG fold with a sampling span: the geometric start weights of the oldest positions become tiny; every
    position where the episode fits must still be drawable (probability > 0) and the drawn episode must be right."""
    msgs = []
    reset_clock()
    G = grid(size)
    tr = Transmitter(list(G))
    tr.add_events(bar_events(G, [A]))
    env = TradingEnv(BoxPortfolio([A], -1, 1), transmitter=tr, episode_length=n, sampling_span=span)
    ncand = size - n
    sig = []
    for pick in picks:
        pick = pick % ncand
        with ChoiceSeam(pick=pick) as seam:
            try:
                env.reset()
            except BaseException as ex:
                return ["long fold of %d steps, span %s, n=%d: reset refused (%r)" % (size, span, n, ex)], 0
        if not seam.calls:
            return ["episode length set but no start was drawn through numpy.random.choice (cannot enumerate starts)"], 0
        cand, p = seam.calls[0]
        if list(cand) != list(range(ncand)):
            msgs.append("long fold of %d steps: %d start candidates offered (first %r, last %r), expected exactly the %d positions where %d decisions fit"
                        % (size, len(cand), list(cand)[:1], list(cand)[-1:], ncand, n))
        if p is not None:
            zero = [i for i, x in enumerate(p) if not (x > 0)]
            if len(p) != len(cand) or zero or abs(float(sum(p)) - 1) > 1e-9:
                msgs.append("long fold of %d steps, span %s: %d of the %d fitting start positions have probability 0 (e.g. position %s) - every fitting position must be drawable"
                            % (size, span, len(zero), len(p), zero[:1]))
        visited = [env.now()]
        try:
            d = False
            while not d and len(visited) < n + 3:
                o, r, d, i = env.step(np.zeros(1))
                visited.append(env.now())
        except Exception as ex:
            msgs.append("step raised %r" % (ex,))
        if visited != G[pick:pick + n + 1]:
            msgs.append("long fold, n=%d, start #%d: visited %s, expected %s" % (n, pick, [str(v) for v in visited[:4]], [str(v) for v in G[pick:pick + 3]]))
        sig.append((pick, len(visited)))
        if msgs:
            break
    return msgs, len(sig)


LONG = {"quick": [(1200, 2, 2, (0, 1, 600, -1)), (1200, None, 3, (0, -1))],
        "thorough": [(1200, 2, 2, (0, 1, 600, -1)), (1200, None, 3, (0, -1)), (3200, 4, 1, (0, 5, 1600, -1)), (2400, 3, 5, (0, 7, -1)), (5000, 8, 2, (0, -1))]}


def cases(tier):
    sizes = (3, 4, 5) if tier == "quick" else (3, 4, 5, 6, 7, 8)
    for size in sizes:
        G = grid(size)
        holes = [()] + [(i,) for i in range(size)]
        if tier == "thorough" and size <= 6:
            holes += [(i, j) for i in range(size) for j in range(i + 1, size)]
        pts = cut_points(G)
        for eventless in holes:
            for a in range(len(pts)):
                for b in range(a, len(pts)):
                    nmax = size - len(eventless) + 1
                    for n in [None] + list(range(1, nmax + 1)):
                        for span in ((None,) if n is None else (None, 2)):
                            if size > 5 and span == 2 and (a + b) % 3:
                                continue
                            yield (size, eventless, a, b, n, span, None)
    # a grid point that is event-bearing through a LATENT event only, sitting exactly at (or just inside) the fold start
    for size in (4, 5):
        G = grid(size)
        pts = cut_points(G)
        for i in range(1, size - 1):
            for a in (2 * i, 2 * i + 1):          # fold starts at the midpoint before G[i], or exactly on G[i]
                for b in range(2 * i + 3, len(pts)):
                    for n in (None, 1, 2, size - i, size - i + 1):
                        yield (size, (), a, b, n, None, ("latent", i))
    # a transmitter that was already used when one of its grid points received its first event (new environment on it)
    for size in (4, 5):
        pts = cut_points(grid(size))
        for eventless in ((), (1,)):
            for i in range(size):
                if i in eventless:
                    continue
                for a in range(0, len(pts), 2):
                    for b in range(a, len(pts), 2):
                        for n in (None, 2):
                            yield (size, eventless, a, b, n, None, ("grown", i))
    # an environment configured with one episode length and then reset with another one (sampling span set or not)
    for size in (5, 6):
        pts = cut_points(grid(size))
        for n1 in range(1, size):
            for n2 in range(1, size + 1):
                if n1 == n2:
                    continue
                for span in (None, 2):
                    for a, b in ((0, len(pts) - 1), (2, len(pts) - 3)):
                        yield (size, (), a, b, n1, span, ("relen", n2))
                        if span is None:
                            yield (size, (), a, b, n1, span, ("relen", -n2))
        for n2 in range(1, size):
            for a, b in ((0, len(pts) - 1), (2, len(pts) - 3)):
                yield (size, (), a, b, None, None, ("relen", -n2))      # no length configured: a plain reset spans the whole fold again
    # a grid with several timesteps per second: fold bounds between two of them
    for size in (5, 6):
        pts = cut_points(grid_ms(size))
        for a in range(len(pts)):
            for b in range(a, len(pts)):
                for n in (None, 1, 2):
                    yield (size, (), a, b, n, None, ("subsec", 0))
    # overlapping pairs of folds on one transmitter
    G = grid(5)
    pts = cut_points(G)
    idx = range(0, len(pts), 2)
    for a, b, c, d in itertools.product(idx, repeat=4):
        if a <= b and c <= d and (a, b) < (c, d):
            for n in (None, 2):
                yield (5, (), a, b, n, None, (c, d))


def _work(chunk):
    out = {"evaluations": 0, "episodes": 0, "violations": [], "outcomes": set(), "nontrivial": set()}
    for (size, eventless, a, b, n, span, second) in chunk:
        G = grid_ms(size) if (second and second[0] == "subsec") else grid(size)
        subsec = bool(second and second[0] == "subsec")
        if subsec:
            second = None
        pts = cut_points(G)
        fold = (pts[a], pts[b])
        lat = second[1] if (second and second[0] == "latent") else None
        grown = second[1] if (second and second[0] == "grown") else None
        relen = second[1] if (second and second[0] == "relen") else None
        if lat is not None or grown is not None or relen is not None:
            second = None
        fold2 = (pts[second[0]], pts[second[1]]) if second else None
        order = [("training-set", False)]
        if second:
            order = [("training-set", False), ("other", False)]
        elif n is not None and eventless:
            order = [("training-set", False), ("training-set", True)]
        for which, desc in order:
            try:
                msgs, eps, sig = run_case(G, set(eventless), fold, n, span, fold2, which, lat, desc, grown, relen)
            except Exception as ex:
                msgs, eps, sig = ["building/running the case raised %r" % (ex,)], 0, None
            out["evaluations"] += 1
            out["episodes"] += eps
            out["outcomes"].add(sig)
            if n is not None or eventless or second:
                out["nontrivial"].add((size, tuple(eventless), a, b, n, span, second, which))
            if msgs:
                out["violations"].append(({"kind": "fold", "size": size, "eventless": list(eventless), "a": a, "b": b, "n": n, "span": span,
                                           "second": list(second) if second else None, "which": which, "latent_only": lat, "descending": desc, "grown": grown, "relen": relen, "subsec": subsec},
                                          "; ".join(msgs[:3]), (msgs[0].split(" ")[0], n is None, bool(eventless))))
    return out


def check_walk_forward(N, train, test, sliding):
    tr = Transmitter(grid(N))
    try:
        f = tr.walk_forward(train_size=train, test_size=test, sliding_window=sliding)
    except Exception as ex:
        return ["walk_forward(N=%d, train=%d, test=%d, sliding=%s) raised %r" % (N, train, test, sliding, ex)]
    msgs = []
    ts, te, vs, ve = [list(map(int, x)) for x in (f.train_start, f.train_end, f.test_start, f.test_end)]
    k = len(ts)
    tag = "walk_forward(N=%d, train=%d, test=%d, sliding=%s)" % (N, train, test, sliding)
    if not (len(te) == len(vs) == len(ve) == k):
        return [tag + ": arrays of different lengths"]
    if k < 1:
        msgs.append(tag + ": no fold although train+test <= N")
    for i in range(k):
        if vs[i] != te[i] + 1:
            msgs.append(tag + ": fold %d test starts at %d, its training window ends at %d" % (i, vs[i], te[i]))
        if ve[i] - vs[i] + 1 != test:
            msgs.append(tag + ": fold %d test window has %d points" % (i, ve[i] - vs[i] + 1))
        if sliding and te[i] - ts[i] + 1 != train:
            msgs.append(tag + ": fold %d training window has %d points" % (i, te[i] - ts[i] + 1))
        if not sliding and ts[i] != 0:
            msgs.append(tag + ": expanding fold %d starts at %d" % (i, ts[i]))
        if not sliding and te[i] - ts[i] + 1 < train:
            msgs.append(tag + ": expanding fold %d has only %d training points" % (i, te[i] - ts[i] + 1))
        if not (0 <= ts[i] <= te[i] < vs[i] <= ve[i] <= N - 1):
            msgs.append(tag + ": fold %d indices out of order or out of range: %r" % (i, (ts[i], te[i], vs[i], ve[i])))
        if i and vs[i] <= ve[i - 1]:
            msgs.append(tag + ": test windows %d and %d overlap or are out of order" % (i - 1, i))
    if k >= 1:
        times = f.as_time()
        G = grid(N)
        for i in range(k):
            if times.test_start[i] != G[vs[i]] or times.test_end[i] != G[ve[i]] or times.train_end[i] != G[te[i]]:
                msgs.append(tag + ": as_time() does not map fold %d to the grid" % i)
                break
    return msgs


def _wf_work(chunk):
    out = {"evaluations": 0, "violations": [], "nontrivial": 0}
    for (N, train, test, sliding) in chunk:
        msgs = check_walk_forward(N, train, test, sliding)
        out["evaluations"] += 1
        if N - train - test >= test:
            out["nontrivial"] += 1   # at least two folds
        if msgs:
            out["violations"].append(({"kind": "wf", "N": N, "train": train, "test": test, "sliding": sliding}, "; ".join(msgs[:3]),
                                      ("wf", sliding)))
    return out


def run(tier, **kw):
    rep = Report("C15", tier, LEVEL)
    cs = list(cases(tier))
    outcomes, nontrivial = set(), set()
    for r in pmap(_work, shard(cs, 128)):
        rep.add("evaluations", r["evaluations"])
        rep.add("episodes_executed", r["episodes"])
        outcomes |= r["outcomes"]
        nontrivial |= r["nontrivial"]
        for case, msg, group in r["violations"]:
            rep.violation(case, msg, group=group)
    wf = [(N, tr_, te_, s) for N in range(2, 15) for tr_ in range(1, N) for te_ in range(1, N - tr_ + 1) for s in (True, False)]
    nt2 = 0
    for r in pmap(_wf_work, shard(wf, 16)):
        rep.add("evaluations", r["evaluations"])
        nt2 += r["nontrivial"]
        for case, msg, group in r["violations"]:
            rep.violation(case, msg, group=group)
    for (size, span, n, picks) in LONG[tier]:
        msgs, eps = check_long(size, span, n, picks)
        rep.add("evaluations", 1)
        rep.add("episodes_executed", eps)
        nt2 += 1
        if msgs:
            rep.violation({"kind": "long", "size": size, "span": span, "n": n, "picks": list(picks)}, "; ".join(msgs[:3]), group=("long", span))
    rep.set("long_fold_cases", [list(x[:3]) for x in LONG[tier]])
    rep.set("walk_forward_cases", len(wf))
    rep.set("distinct_outcomes", len(outcomes))
    rep.set("distinct_nontrivial", len(nontrivial) + nt2)
    rep.set("exhaustive", True)
    rep.set("rule", "fold cases: grid size %s x {no event-less point, each single event-less point%s} x EVERY fold window (start <= end) over grid points, "
                    "midpoints and one point beyond each end x episode length None/1..size+1 x sampling span {none, 2} x every start the implementation offers "
                    "(numpy.random.choice seam); plus overlapping pairs of folds on one transmitter, and transmitters already used by another environment before one grid point received its first event; walk-forward: ALL (N<=14, train, test, sliding/expanding) "
                    "with train+test<=N; long folds (1200-5000 steps) with a sampling span, where the geometric start weights of the oldest positions underflow unless floored. non-trivial = distinct fold case with an episode length, an event-less point or a second fold, or walk-forward case with >= 2 folds"
                    % ("3-5" if tier == "quick" else "3-8", "" if tier == "quick" else ", each pair"))
    rep.set("samples", [{"kind": "fold", "size": 5, "eventless": [2], "a": 2, "b": 8, "n": 2, "span": 2},
                        {"kind": "wf", "N": 10, "train": 4, "test": 2, "sliding": False}])
    rep.assumptions = ["steps observed through env.now() (a bar exactly at every event-bearing grid point)",
                       "TradingEnv(episode_length=n) means n decisions, reset(episode_length=k) means k states = k-1 decisions (both as documented)"]
    return rep.finish(replay)


def replay(case, **kw):
    if case["kind"] == "wf":
        return check_walk_forward(case["N"], case["train"], case["test"], case["sliding"])
    if case["kind"] == "long":
        return check_long(case["size"], case["span"], case["n"], case["picks"])[0]
    G = grid_ms(case["size"]) if case.get("subsec") else grid(case["size"])
    pts = cut_points(G)
    fold = (pts[case["a"]], pts[case["b"]])
    fold2 = (pts[case["second"][0]], pts[case["second"][1]]) if case.get("second") else None
    try:
        msgs, _, _ = run_case(G, set(case["eventless"]), fold, case["n"], case["span"], fold2, case["which"], case.get("latent_only"), case.get("descending", False), case.get("grown"), case.get("relen"))
    except Exception as ex:
        msgs = ["building/running the case raised %r" % (ex,)]
    return msgs


def probe():
    G = grid(5)
    pts = cut_points(G)
    return repr(run_case(G, {2}, (pts[2], pts[8]), 2, 2)[2]) + repr(check_walk_forward(10, 4, 2, False))

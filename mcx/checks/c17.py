"""C17 only in-space actions are executed, as the allocation they denote.

Fault enumeration: every malformed action of a menu injected at every step of
every short episode, for continuous / discrete / whole-lot spaces, contract lists
with and without cash, and delays 0..2."""
import itertools
from mcx.envh import *  # noqa
from mcx.enumr import shard
from mcx.common import Report, pmap, close

LEVEL = "fault_enumeration"
BASE = datetime(2020, 1, 6, 10, 0, 0)
NB = 5
CASH = Cash()


def spaces():
    """name -> (factory, in-space actions, malformed actions, denote(action)->dict sym->value, measure)"""
    out = {}
    for cname, clist in (("nocash", [A, B]), ("cashfirst", [CASH, A, B]), ("cashlast", [A, B, CASH]), ("cashmid", [A, CASH, B]),
                         ("twocash", [Cash("EUR"), A, CASH, B])):       # two cash contracts (the base currency is the last one)
        n = len(clist)

        def vec(a, b, clist=clist):
            return np.array([0.0 if isinstance(c, Cash) else (a if c is A else b) for c in clist])

        def denote(action, clist=clist):
            return {c.symbol: float(v) for c, v in zip(clist, np.asarray(action, dtype=float)) if not isinstance(c, Cash) and v != 0}
        for bname, lo, hi in (("box01", 0.0, 1.0), ("boxwide", -1.0, 1.5)):
            good = [vec(0.5, 0.25), vec(hi, 0.0), vec(0.0, 0.0), list(vec(0.25, 0.5)), tuple(vec(lo, hi * 0.5)),
                    np.array([0 if isinstance(c, Cash) else 1 for c in clist])]
            if cname != "nocash":
                g = vec(0.25, 0.25)
                g[[isinstance(c, Cash) for c in clist].index(True)] = 0.5   # a cash entry must be ignored
                good.append(g)
            bad = [np.ones(n - 1) * 0.5, np.ones(n + 1) * 0.5, np.ones((1, n)) * 0.5, np.ones((n, 1)) * 0.5, vec(np.nextafter(hi, 9.0), 0.0),
                   vec(hi + 1.0, 0.0), vec(0.0, lo - 1.0), vec(np.nextafter(lo, -9.0), 0.5), vec(np.nan, 0.5),
                   vec(np.inf, 0.0), vec(0.0, -np.inf), None, "abc", 0.5, [0.5] * (n + 2)]
            if cname != "nocash":
                # malformed in the CASH slot only (the cash entry is ignored when executing, not when validating)
                ci = [isinstance(c, Cash) for c in clist].index(True)
                for badv in (np.nan, hi + 1.0, lo - 1.0, np.inf):
                    b_ = vec(0.5, 0.25)
                    b_[ci] = badv
                    bad.append(b_)
            out["%s-%s" % (bname, cname)] = (lambda clist=clist, lo=lo, hi=hi: BoxPortfolio(clist, lo, hi), good, bad, denote, "weight", True)
        if cname == "nocash":
            # per-contract (array) bounds: A long-only [0,1], B short-only [-1,0]; the malformed actions lie inside the
            # overall envelope [-1, 1] but outside their own contract's bound
            lo_a, hi_a = np.array([0.0, -1.0]), np.array([1.0, 0.0])
            good = [np.array([0.5, -0.5]), np.array([1.0, 0.0]), np.array([0.0, 0.0]), np.array([0.0, -1.0]), [0.25, -0.75]]
            bad = [np.array([-0.5, 0.5]), np.array([0.5, 0.5]), np.array([-0.1, -0.5]), np.array([1.0, np.nextafter(0.0, 1.0)]),
                   np.array([np.nan, -0.5]), np.array([0.5]), None]
            out["boxarr-nocash"] = (lambda clist=clist, lo_a=lo_a, hi_a=hi_a: BoxPortfolio(clist, lo_a, hi_a), good, bad, denote, "weight", True)
            good = [np.array([2.0, 3.0]), np.array([2.7, 0.0]), np.array([8.0, 7.9]), [0, 1]]
            bad = [np.array([8.5, 0.0]), np.array([-1.0, 1.0]), np.array([np.nan, 1.0]), np.array([1.0]), None, np.array([[1.0, 1.0]])]
            out["lots-nocash"] = (lambda clist=clist: BoxPortfolio(clist, 0.0, 8.0, as_weights=False, fractional=False), good, bad, denote, "nr-contracts", False)
        allocs = [[0.0] * n, list(vec(0.5, 0.25)), list(vec(1.0, -0.5)), list(vec(0.0, 0.75))]
        if cname != "nocash":
            allocs[3][[isinstance(c, Cash) for c in clist].index(True)] = 0.25

        def ddenote(action, clist=clist, allocs=allocs):
            return {c.symbol: float(v) for c, v in zip(clist, allocs[int(action)]) if not isinstance(c, Cash) and v != 0}
        if cname == "nocash":
            # whole-lot execution of WEIGHT allocations: the allocation executed is still the indexed weight vector
            out["discwl-nocash"] = (lambda clist=clist, allocs=allocs: DiscretePortfolio(clist, allocs, fractional=False), [1, 2, 3, 0, np.int64(2)],
                                    [-1, 4, 1.5, None, np.array([1.7])], ddenote, "weight", False)
        out["disc-%s" % cname] = (lambda clist=clist, allocs=allocs: DiscretePortfolio(clist, allocs), [1, 2, 3, 0, np.int64(2), np.array(3)],
                                  [-1, 4, 1.5, 10 ** 9, None, "a", np.array([0, 1]), np.nan, np.array([1.7]), np.array(1.5), np.array([-0.5]),
                                   np.float64(2.5), np.array([[0.25]]), np.array([np.nan])], ddenote, "weight", True)
    return out


SPACES = spaces()


def make_env(sname, delay):
    reset_clock()
    G = [BASE + timedelta(minutes=i) for i in range(NB)]
    tr = Transmitter(list(G))
    tr.add_events(bar_events(G, [A, B], base=64.0, spread=2.0, step=4.0))
    env = TradingEnv(SPACES[sname][0](), transmitter=tr, steps_delay=delay, initial_cash=65536.0)
    return env


def snapshot(env):
    b = env.broker
    return (tuple(sorted((str(k), fl(v)) for k, v in b._holdings_quantity.items())),
            tuple(sorted((str(k), fl(v)) for k, v in b._holdings_margins.items() if np.any(np.asarray(v) != 0))), len(b.track_record))


def run_case(sname, delay, bad_idx, pos, filler, reuse=False):
    """Episode with the malformed action (or none if bad_idx is None) submitted at step `pos`;
    in-space filler actions elsewhere.  With `reuse` the caller keeps ONE action buffer: the array accepted at step pos-1 is
    overwritten in place with the malformed values and submitted again (the same object, now outside the space)."""
    factory, good, bad, denote, measure, fractional = SPACES[sname]
    msgs = []
    env = make_env(sname, delay)
    env.reset()
    submitted = []
    raised_at = None
    steps = NB - 1
    buf = None
    for k in range(steps):
        if bad_idx is not None and k == pos:
            action = bad[bad_idx]
            if reuse and buf is not None and isinstance(action, np.ndarray) and action.shape == buf.shape:
                buf[...] = action
                action = buf
            submitted.append(("bad", np.array(action, copy=True) if isinstance(action, np.ndarray) else action))
        else:
            action = good[(filler + k) % len(good)]
            if reuse and bad_idx is not None and k == pos - 1:
                action = buf = np.array(action, dtype=float)
            submitted.append(("good", np.array(action, copy=True) if isinstance(action, np.ndarray) else action))
        nlv_pre = env.broker.net_liquidation_value(False)
        before = snapshot(env)
        books = {c.symbol: (env.exchange[c].bid_price, env.exchange[c].ask_price) for c in (A, B)}
        try:
            o, r, d, info = env.step(action)
        except Exception as ex:
            raised_at = k
            after = snapshot(env)
            if after != before:
                msgs.append("step %d raised %r but the account changed: %r -> %r" % (k, ex, before, after))
            due = [i for i, (kind, _) in enumerate(submitted) if kind == "bad"]
            if not due:
                msgs.append("step %d raised %r although every submitted action is in the space" % (k, ex))
                break
            # the caller catches the error and keeps stepping with in-space actions: the rejected action
            # must never be executed later either
            allowed = [denote(a) for kind, a in submitted if kind == "good"]
            allowed.append(denote(0) if sname.startswith("disc") else {})
            allowed.append({})
            for k2 in range(k + 1, steps):
                if env._done:
                    break
                action2 = good[(filler + k2) % len(good)]
                allowed.append(denote(action2))
                submitted.append(("good", action2))
                before2 = snapshot(env)
                n2 = len(env.broker.track_record)
                try:
                    o, r, d, info = env.step(action2)
                except Exception as ex2:
                    if snapshot(env) != before2:
                        msgs.append("step %d (after the rejection) raised %r and changed the account" % (k2, ex2))
                    continue
                tr2 = env.broker.track_record
                if len(tr2) > n2:
                    got2 = {getattr(c, "symbol", str(c)): fl(v) for c, v in tr2[-1].allocation.items()}
                    if got2 not in allowed:
                        msgs.append("after the malformed action %r was rejected at step %d, step %d executed allocation %r, which no "
                                    "in-space submitted action denotes (submitted: %r)" % (submitted[due[0]][1], k, k2, got2, allowed))
                        break
                    # the rejection must not shorten the delay: what call k2 executes was submitted at call k2 - delay or earlier
                    # (or is the null / flat allocation); whether the in-space action submitted WITH the rejecting call is kept is left open
                    old_enough = [denote(a) for kind, a in submitted[:max(0, k2 - delay + 1)] if kind == "good"]
                    nulls = [denote(0) if sname.startswith("disc") else {}, {}]
                    if delay and got2 not in old_enough and got2 not in nulls:
                        msgs.append("after the rejection at step %d (delay %d), step %d executed %r, an action submitted fewer than %d calls earlier"
                                    % (k, delay, k2, got2, delay))
                        break
            break
        # the call succeeded: what was executed must be the decision submitted `delay` steps earlier
        j = k - delay
        tr = env.broker.track_record
        if len(tr) != k + 1:
            msgs.append("track record has %d entries after %d successful steps" % (len(tr), k + 1))
            break
        got = {getattr(c, "symbol", str(c)): fl(v) for c, v in tr[k].allocation.items()}
        if j >= 0:
            kind, src = submitted[j]
            if kind == "bad":
                msgs.append("malformed action %r submitted at step %d was due at step %d, which executed %r instead of raising"
                            % (src, j, k, got))
                break
            exp = denote(src)
            if got != exp:
                msgs.append("step %d executed allocation %r, the action due (%r) denotes %r" % (k, got, src, exp))
            # (whether the broker then REACHES the allocation is C03's subject, not checked here)
        else:
            if got and not all(v == 0 for v in got.values()):
                exp0 = denote(0) if sname.startswith("disc") else {}
                if got != exp0:
                    msgs.append("step %d (before any decision is due, delay %d) executed %r instead of the null action" % (k, delay, got))
        if d:
            break
    if bad_idx is not None and raised_at is None and pos + delay < steps and not msgs:
        msgs.append("malformed action %r submitted at step %d (delay %d) never raised" % (bad[bad_idx], pos, delay))
    if raised_at is not None and bad_idx is not None and raised_at > pos + delay:
        msgs.append("malformed action raised at step %d, later than its due step %d" % (raised_at, pos + delay))
    return msgs, raised_at


def fl(v):
    """value of an executed allocation entry; an entry that is not a scalar (a malformed action that got through) is shown as it is"""
    a = np.asarray(v, dtype=float).ravel()
    return float(a[0]) if a.size == 1 else tuple(float(x) for x in a)


def all_cases(tier):
    delays = (0, 1, 2)
    fillers = (0, 1) if tier == "quick" else (0, 1, 2, 3)
    for sname, spec in SPACES.items():
        for delay in delays:
            for filler in fillers:
                yield (sname, delay, None, 0, filler)
            for bi in range(len(spec[2])):
                for pos in range(NB - 1):
                    for filler in (fillers if tier == "thorough" else fillers[:1] if pos else fillers):
                        yield (sname, delay, bi, pos, filler)
                    # the caller re-uses one array: accepted at step pos-1, overwritten in place, submitted again (delay 0: with a
                    # delay the queue holds a reference to the caller's buffer, which is outside the statement - DESIGN 10.4b)
                    if delay == 0 and pos >= 1 and isinstance(spec[2][bi], np.ndarray) and np.asarray(spec[2][bi]).ndim == 1 and sname.startswith("box"):
                        yield (sname, delay, bi, pos, 0, True)


def _work(chunk):
    out = {"evaluations": 0, "violations": [], "nontrivial": set(), "outcomes": set()}
    for case in chunk:
        try:
            msgs, raised_at = run_case(*case)
        except Exception as ex:
            msgs, raised_at = ["harness: running the case raised %r" % (ex,)], None
        out["evaluations"] += 1
        out["outcomes"].add((case[0], case[1], case[2], raised_at))
        if raised_at is not None:
            out["nontrivial"].add(case)
        if msgs:
            out["violations"].append(({"space": case[0], "delay": case[1], "bad": case[2], "pos": case[3], "filler": case[4], "reuse": len(case) > 5 and case[5]},
                                      "space %s delay %d: %s" % (case[0], case[1], "; ".join(msgs[:2])),
                                      (case[0].split("-")[0], msgs[0].split(" ")[0], case[1])))
    return out


def run(tier, **kw):
    rep = Report("C17", tier, LEVEL)
    cs = list(all_cases(tier))
    outcomes, nt = set(), set()
    for r in pmap(_work, shard(cs, 64)):
        rep.add("evaluations", r["evaluations"])
        outcomes |= r["outcomes"]
        nt |= r["nontrivial"]
        for case, msg, group in r["violations"]:
            rep.violation(case, msg, group=group)
    rep.set("distinct_outcomes", len(outcomes))
    rep.set("distinct_nontrivial", len(nt))
    rep.set("spaces", sorted(SPACES))
    rep.set("exhaustive", True)
    rep.set("rule", "one evaluation = one 4-step episode; enumerated: 13 spaces (Box [0,1], Box [-1,1.5], whole-lot contract Box [0,8], Discrete with 4 allocations; "
                    "contract lists without cash / cash first / cash last / cash in the middle) x delay {0,1,2} x every malformed action of the space's menu (wrong length, 2-D, out of "
                    "bounds by one ulp and by 1, NaN, +-inf, None, string, scalar; discrete: -1, n, 1.5, 1e9, None, string, array, NaN, 2.0) injected at every step "
                    "position, in-space filler actions elsewhere, plus fault-free episodes, plus (delay 0, Box spaces) the malformed values written IN PLACE into the array object accepted at the previous step and submitted again; non-trivial = distinct case in which a call raised")
    rep.set("samples", [{"space": "box01-cashfirst", "delay": 1, "bad": 3, "pos": 2, "filler": 0,
                         "meaning": "weight one ulp above the upper bound submitted at step 2 with delay 1: must raise at step 3 at the latest, account unchanged"}])
    rep.assumptions = ["np.bool_/bool indices are not in the malformed menu (gymnasium's Discrete accepts them as integers)",
                       "'unchanged across the raising call' = positions, margins, cash and track-record length snapshots"]
    return rep.finish(replay)


def replay(case, **kw):
    try:
        msgs, _ = run_case(case["space"], case["delay"], case["bad"], case["pos"], case["filler"], case.get("reuse", False))
    except Exception as ex:
        msgs = ["harness: running the case raised %r" % (ex,)]
    return msgs


def probe():
    out = []
    for c in [("box01-cashfirst", 1, 3, 2, 0), ("disc-nocash", 2, 2, 0, 1), ("lots-nocash", 0, None, 0, 0)]:
        out.append(run_case(*c))
    return repr(out)

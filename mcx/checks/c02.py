"""C02 no look-ahead.

Core API: non-interference decided by prefix-equivalence classes - EVERY stream
of a bounded value alphabet is executed once and its cumulative output at each
step is filed under (settings, the events stamped <= t); a class may contain only
one output.  Tabular API: every perturbation of rows dated after the cut date
must leave the trace up to the cut bit-identical."""
import itertools
import hashlib
from mcx.envh import *  # noqa
from mcx.enumr import shard
from mcx.common import Report, pmap
from tradingenv.state import State
from tradingenv.events import EventNewObservation
from tradingenv.library import FeaturePrices, FeaturePortfolioWeight

LEVEL = "exploration"
BASE = datetime(2020, 1, 6, 10, 0, 0)
PRICES = {0: (64.0, 80.0), 1: (32.0, 24.0)}     # contract index -> the two alternative bar prices
ACTS = [np.array([0.5, 0.25]), np.array([-0.25, 1.0])]
SCRIPTS = [(0, 1, 0, 1, 0, 1), (1, 1, 0, 0, 1, 0)]


def hx(x):
    return float(x).hex()


def obs_bytes(o):
    if isinstance(o, np.ndarray):
        return o.tobytes()
    if isinstance(o, dict):
        return b"|".join(str(k).encode() + b"=" + obs_bytes(v) for k, v in sorted(o.items(), key=lambda kv: str(kv[0])))
    return repr(type(o)).encode()


class RecFeature(Feature):
    """a recording feature: remembers every quote/custom event it is handed"""

    def __init__(self):
        super().__init__(save=False)
        self.seen = []

    def process_EventNBBO(self, event):
        self.seen.append((str(event.time), str(event.contract), event.bid_price))

    def process_Custom(self, event):
        self.seen.append((str(event.time), "custom", event.tag))


def settings(tier):
    out = []
    for L in (0, 30):
        for delay in (0, 1):
            for fold in ("whole", "late"):
                for hist in ("all", "markov", "warm1"):
                    for script in ((0,) if tier == "quick" else (0, 1)):
                        for mode in ("features", "window"):
                            if mode == "window" and (hist != "all" or (tier == "quick" and fold == "late")):
                                continue
                            out.append((L, delay, fold, hist, script, mode))
    # the transmitter was first handed to an environment with a LONGER latency (45 s), then to the one under test
    out.append((0, 0, "whole", "all", 0, "features:shared"))
    for L in (0, 30):
        out.append((L, 0, "whole", "all", 0, "features:nano"))
    return out


def extra_positions(G, L, nano=False):
    pos = []
    if nano:
        # a nanosecond-resolution feed (pandas Timestamps): stamps a fraction of a MICROsecond after the timestep / after the window
        import pandas as pd
        for g in G[:-1]:
            pos += [pd.Timestamp(g) + pd.Timedelta(500, "ns"), pd.Timestamp(g) + pd.Timedelta(seconds=L) + pd.Timedelta(500, "ns"),
                    pd.Timestamp(g) + pd.Timedelta(999, "ns")]
        return pos
    for g in G[:-1]:
        # sub-second stamps: 0.4 s after the timestep, and 0.4 s after the end of the latency window (never inside it)
        pos += [g + timedelta(seconds=0.4), g + timedelta(seconds=L if L else 2), g + timedelta(seconds=L + 0.4 if L else 3)]
    return pos


def run_stream(setting, nbars, bits, extra, table, table_next, case_of):
    """Execute one stream; files its cumulative outputs in `table`.  Returns list of conflicts."""
    L, delay, fold, hist, script, mode = setting
    reset_clock()
    G = [BASE + timedelta(minutes=i) for i in range(nbars)]
    cs = [A, B]
    evs = []
    desc = []   # (time, descriptor) of every event, used for the prefix keys
    for i, g in enumerate(G):
        for j, c in enumerate(cs):
            p = PRICES[j][(bits >> (2 * i + j)) & 1]
            evs.append(EventNBBO(g, c, p, p + 1.0))
            desc.append((g, ("bar", i, j, p)))
        if mode == "window":
            v = 0.25 * (1 + ((bits >> (2 * i)) & 3))
            evs.append(EventNewObservation(g, {"x": v, "y": -v}))
    if extra is not None:
        pi, kind, val = extra
        t = extra_positions(G, L, mode.endswith(":nano"))[pi]
        if kind == "Q":
            evs.append(EventNBBO(t, A, 70.0 + 6 * val, 71.0 + 6 * val))
        else:
            evs.append(Custom(t, val))
        desc.append((t, ("extra", pi, kind, val)))
    f = {"whole": (G[0], G[-1]), "late": (G[1], G[-1])}[fold]
    tr = Transmitter(list(G), folds={"training-set": list(f)}, markov_reset=(hist == "markov"),
                     warmup=(G[1] - G[0]) if hist == "warm1" else None)
    tr.add_events(evs)
    recf = None
    if mode.endswith(":shared"):
        mode = mode.split(":")[0]
        TradingEnv(BoxPortfolio(cs, -1.0, 1.5), transmitter=tr, latency=45, initial_cash=4096.0)
    if mode.endswith(":nano"):
        mode = mode.split(":")[0]
    if mode == "features":
        recf = RecFeature()
        state = [FeaturePrices(cs), FeaturePortfolioWeight(cs, -1.0, 1.5), recf]
    else:
        state = State(2, window=2)
    try:
        env = TradingEnv(BoxPortfolio(cs, -1.0, 1.5), state=state, transmitter=tr, latency=L, steps_delay=delay, initial_cash=4096.0,
                         broker_fees=BrokerFees(proportional=1.0 / 64))
    except Exception as ex:
        from mcx.common import impl_raised
        if not impl_raised(ex):
            raise
        return [("building the environment for an in-domain stream raised %r" % (ex,), None, case_of())]
    conflicts = []
    h = hashlib.sha1()
    skey = setting

    def prefix(bound):
        return tuple(sorted((str(t), d) for t, d in desc if t <= bound))

    def file(tbl, key, digest, what):
        key = hashlib.sha1(repr(key).encode()).digest()
        old = tbl.get(key)
        if old is None:
            tbl[key] = (digest, case_of(), what)
        elif old[0] != digest:
            conflicts.append((what, old[1], case_of()))

    def snap_out(o, r):
        b = env.broker
        h.update(obs_bytes(o))
        h.update(repr(r if r is None else hx(r)).encode())
        h.update(repr(sorted((str(k), hx(v)) for k, v in b.holdings_quantity.items())).encode())
        try:
            h.update(hx(b.net_liquidation_value(False)).encode())
        except Exception as ex:
            h.update(type(ex).__name__.encode())
        trk = b.track_record
        if len(trk):
            e = trk[-1]
            h.update(repr((str(e.time), hx(e.context_pre.nlv), hx(e.context_post.nlv),
                           [(str(t.contract), hx(t.quantity), hx(t.acq_price)) for t in e.trades])).encode())
        if recf is not None:
            h.update(repr(recf.seen).encode())

    try:
        o = env.reset()
    except Exception as ex:
        return [("reset raised %r" % (ex,), None, case_of())]
    snap_out(o, None)
    steps = [g for g in G if f[0] <= g <= f[1]]
    file(table, (skey, prefix(steps[0])), h.hexdigest(), "outputs up to %s" % steps[0].time())
    for k in range(1, len(steps)):
        try:
            o, r, d, info = env.step(ACTS[SCRIPTS[script][k - 1]])
        except Exception as ex:
            conflicts.append(("step raised %r" % (ex,), None, case_of()))
            break
        e = env.broker.track_record[-1]
        th = hashlib.sha1(repr([(str(t.contract), hx(t.quantity), hx(t.acq_price)) for t in e.trades]).encode()).hexdigest()
        # the execution of this step was decided at steps[k-1]; it may depend on nothing stamped after steps[k-1] + latency
        file(table_next, (skey, k, h.hexdigest(), prefix(steps[k - 1] + timedelta(seconds=L))), th,
             "trades executed after %s (+%ds latency)" % (steps[k - 1].time(), L))
        snap_out(o, r)
        file(table, (skey, prefix(steps[k])), h.hexdigest(), "outputs up to %s" % steps[k].time())
    return conflicts


def all_extras(nbars, max_extra_val):
    npos = 3 * (nbars - 1)
    return [None] + [(pi, kind, val) for pi in range(npos) for kind in ("Q", "C") for val in range(max_extra_val)]


def _work(unit):
    """One work unit = one setting x a slice of the extra-event choices x ALL value assignments.
    Streams of different units can share prefixes, so the (compacted) class tables are returned
    and merged by the caller, which detects cross-unit conflicts."""
    setting, nbars, extras = unit
    table, table_next = {}, {}
    out = {"evaluations": 0, "violations": [], "setting": setting}
    for extra in extras:
        for bits in range(1 << (2 * nbars)):
            cur = (bits, extra)
            conflicts = run_stream(setting, nbars, bits, extra, table, table_next, lambda: cur)
            out["evaluations"] += 1
            for what, first, second in conflicts:
                out["violations"].append(conflict_violation(what, expand(first, setting, nbars), expand(second, setting, nbars), setting))
            if len(out["violations"]) > 30:
                break
        if len(out["violations"]) > 30:
            break
    out["table"] = table
    out["table_next"] = table_next
    return out


def expand(c, setting, nbars):
    if c is None or isinstance(c, dict):
        return c
    bits, extra = c
    return {"setting": list(setting), "nbars": nbars, "bits": bits, "extra": list(extra) if extra else None}


def conflict_violation(what, first, second, setting):
    if first is None:
        return ({"part": "core", "a": second, "b": second}, what, ("exc", setting[0], setting[3]))
    return ({"part": "core", "a": first, "b": second},
            "two streams that agree on every event stamped up to the cut produce different %s: %s vs %s" % (what, first, second),
            (what.split(" ")[0], setting[0], setting[1], setting[3], setting[5]))


# ---------------------------------------------------------------------------
# tabular API

def xy_tables(gappy=False):
    import pandas as pd
    idx = pd.bdate_range("2022-01-03", periods=14)
    X = pd.DataFrame({"f1": np.linspace(0.1, 1.4, 14) ** 2, "f2": np.cos(np.arange(14))}, index=idx)
    Y = pd.DataFrame({"a": 100 + np.arange(14) * 1.5 + np.sin(np.arange(14)), "b": 50 - np.arange(14) * 0.5}, index=idx)
    if gappy == "eod":
        # end-of-day feature snapshots: X is stamped 16:00 of each day, the price table (and so every timestep) at midnight;
        # the row of day d exists only AFTER the step landing on d
        X.index = X.index + pd.Timedelta(hours=16)
        return X, Y, idx
    if gappy:
        # low-frequency feature (observed every third row), an isolated NaN, a row missing from X altogether and
        # a NaN price: whatever fills these gaps must not look at later rows
        for r in range(14):
            if r % 3:
                X.iloc[r, 0] = np.nan
        X.iloc[8, 1] = np.nan
        X = X.drop(idx[5])
        Y.iloc[7, 1] = np.nan
    return X, Y, idx


def xy_rate(idx, cut=None, late=False):
    """sparse fixings (with `late` the first fixing comes only at row 9, i.e. after most cuts);
    with `cut`, every fixing dated after idx[cut] is replaced"""
    import pandas as pd
    r = pd.Series([0.02, 0.03, 0.04, 0.05], index=idx[[2, 6, 9, 12]], name="rf")
    if late:
        r = r.iloc[2:]
    if cut is not None:
        r = r.copy()
        r[r.index > idx[cut]] = 0.2
    return r


def xy_trace(X, Y, transformer, t_end, window, upto, rate=None, start=None):
    """Trace of (date, obs bytes, reward, holdings, nlv) up to the step landing on `upto`."""
    import pandas as pd
    from tradingenv.env import TradingEnvXY
    reset_clock()
    kw = {} if start is None else {"start": start}
    if transformer == "fitted-z":
        # an estimator instance ALREADY FITTED by the caller on the rows up to the fit date, handed over with `transformer_end`
        # left at its default: a fitted transformer is used as it is (the reward scale then spans the whole price table, which
        # these runs never alter)
        from sklearn.preprocessing import StandardScaler
        transformer, t_end = StandardScaler().fit(X.loc[:t_end]), None
    env = TradingEnvXY(X.copy(), Y.copy(), transformer=transformer, transformer_end=t_end, window=window, spread=0.002,
                       rate=None if rate is None else rate.copy(), **kw)
    out = []
    o = env.reset()
    rbook = lambda: hx(env.exchange[env._broker_fees.interest_rate].mid_price)
    out.append((str(env.now()), o.tobytes(), None, rbook()))
    k = 0
    while not env._done and env.now() < upto:
        o, r, d, info = env.step(np.array([0.5, -0.25]) if k % 2 == 0 else np.array([-0.5, 1.0]))
        b = env.broker
        out.append((str(env.now()), o.tobytes(), hx(r), tuple(sorted((str(c), hx(v)) for c, v in b.holdings_quantity.items())),
                    hx(b.net_liquidation_value(False)), rbook()))
        k += 1
    return [e for e in out if pd.Timestamp(e[0]) <= upto]


def xy_cases(tier):
    X, Y, idx = xy_tables()
    out = []
    for transformer in (None, "z-score", "yeo-johnson"):
        for window in ((1, 2) if tier == "quick" else (1, 2, 3)):
            for te in ((5,) if tier == "quick" else (4, 6)):
                for cut in range(te, 12, 2 if tier == "quick" else 1):     # incl. the cut AT the fit date
                    # "start": the backtest starts AT the fit date ("fit until D, trade from D"), so the traded sample holds a
                    # single row up to the fit date - whatever is fitted must still use data up to D only
                    for gappy in (False, True, "eod", "start"):
                        out.append((transformer, window, te, cut, gappy))
    for window in (1, 2):
        for te in ((5,) if tier == "quick" else (4, 6)):
            for cut in range(te, 12, 2 if tier == "quick" else 1):
                for gappy in (False, True):
                    out.append(("fitted-z", window, te, cut, gappy))
    return out


def perturbations(tier, n_after):
    """patterns over the next rows: per row (X action, Y action) in {keep, alt, nan}"""
    acts = ("keep", "alt", "nan")
    k = min(2, n_after)
    pats = []
    if tier == "quick":
        for x1, y1 in itertools.product(acts, repeat=2):
            for both2 in acts:
                pats.append(((x1, y1), (both2, both2)))
    else:
        for p in itertools.product(itertools.product(acts, repeat=2), repeat=k):
            pats.append(p)
    return [p for p in pats if any(a != "keep" for row in p for a in row)] + ["append", "truncate"]


def apply_pattern(X, Y, idx, cut, pat):
    import pandas as pd
    X2, Y2 = X.copy(), Y.copy()
    xrow = lambda row: X2.index.get_indexer([idx[row]])[0]
    if len(X2) and X2.index[0] != X2.index[0].normalize():
        # end-of-day stamps: the feature row of day `cut` itself (16:00) is already dated after the step landing on idx[cut]
        xrow = lambda row: X2.index.get_indexer([idx[row - 1] + pd.Timedelta(hours=16)])[0]
    if pat == "append":
        extra = pd.bdate_range(idx[-1] + pd.Timedelta(days=1), periods=2)
        X2 = pd.concat([X2, pd.DataFrame({"f1": [9.0, -9.0], "f2": [3.0, 4.0]}, index=extra)])
        Y2 = pd.concat([Y2, pd.DataFrame({"a": [10.0, 500.0], "b": [70.0, 5.0]}, index=extra)])
        return X2, Y2
    if pat == "truncate":
        return X2.loc[:idx[cut + 1]], Y2.loc[:idx[cut + 1]]
    for r, (xa, ya) in enumerate(pat):
        row = cut + 1 + r
        if row >= len(idx):
            break
        if xa == "alt" and xrow(row) >= 0:
            X2.iloc[xrow(row)] = [7.5, -3.0]
        elif xa == "nan" and xrow(row) >= 0:
            X2.iloc[xrow(row)] = [np.nan, np.nan]
        if ya == "alt":
            Y2.iloc[row] = [17.0, 140.0]
        elif ya == "nan":
            Y2.iloc[row] = [np.nan, np.nan]
    return X2, Y2


def _xy_work(chunk):
    memo_calendars()
    out = {"evaluations": 0, "violations": [], "nontrivial": 0}
    tier = chunk[0][-1]
    for (transformer, window, te, cut, gappy, _tier) in chunk:
        X, Y, idx = xy_tables(gappy)
        st = idx[te] if gappy == "start" else None
        try:
            base = xy_trace(X, Y, transformer, idx[te], window, idx[cut], start=st)
        except Exception as ex:
            out["violations"].append(({"part": "xy", "transformer": transformer, "window": window, "te": te, "cut": cut, "pattern": None, "gappy": gappy},
                                      "unperturbed tabular run raised %r" % (ex,), ("xy-base", transformer)))
            continue
        # the rate table: fixings dated after the cut are altered
        if window == 1 and transformer != "fitted-z":
          for late in (False, True):
            try:
                rb = xy_trace(X, Y, transformer, idx[te], window, idx[cut], xy_rate(idx, None, late), start=st)
                rp = xy_trace(X, Y, transformer, idx[te], window, idx[cut], xy_rate(idx, cut, late), start=st)
                out["evaluations"] += 1
                out["nontrivial"] += 1
                if rb != rp:
                    i = next((i for i, (a, b) in enumerate(zip(rp, rb)) if a != b), min(len(rp), len(rb)))
                    out["violations"].append(({"part": "xy", "transformer": transformer, "window": window, "te": te, "cut": cut, "pattern": "rate",
                                               "gappy": gappy, "tier": tier, "late": late},
                                              "altering interest-rate fixings dated after %s changed the output at %s"
                                              % (idx[cut].date(), rb[i][0] if i < len(rb) else "length"), ("xy-rate", transformer)))
            except Exception as ex:
                out["violations"].append(({"part": "xy", "transformer": transformer, "window": window, "te": te, "cut": cut, "pattern": "rate",
                                           "gappy": gappy, "tier": tier}, "tabular run with a rate series raised %r" % (ex,), ("xy-rate-exc", transformer)))
        for pat in perturbations(tier, len(idx) - 1 - cut):
            if transformer == "fitted-z" and (isinstance(pat, str) or any(ya != "keep" for _, ya in pat)):
                continue     # pre-fitted transformer: only the FEATURE table is altered (see xy_trace)
            if gappy == "start" and pat == "truncate":
                continue     # with the start at the fit date a truncated table can hold too few steps to build an environment at all
            X2, Y2 = apply_pattern(X, Y, idx, cut, pat)
            case = {"part": "xy", "transformer": transformer, "window": window, "te": te, "cut": cut, "gappy": gappy,
                    "pattern": pat if isinstance(pat, str) else [list(r) for r in pat], "tier": tier}
            try:
                got = xy_trace(X2, Y2, transformer, idx[te], window, idx[cut], start=st)
            except Exception as ex:
                out["evaluations"] += 1
                out["violations"].append((case, "rows after %s perturbed (%s): run raised %r" % (idx[cut].date(), pat, ex), ("xy-exc", transformer)))
                continue
            out["evaluations"] += 1
            out["nontrivial"] += 1
            if got != base:
                i = next((i for i, (a, b) in enumerate(zip(got, base)) if a != b), min(len(got), len(base)))
                out["violations"].append((case, "transformer %s window %d fitted up to %s: altering rows dated after %s (%s) changed the output at %s"
                                          % (transformer, window, idx[te].date(), idx[cut].date(), pat,
                                             base[i][0] if i < len(base) else "length"), ("xy", transformer, window)))
    return out


def run(tier, **kw):
    rep = Report("C02", tier, LEVEL)
    nbars = 4 if tier == "quick" else 5
    sets = settings(tier)
    extras = all_extras(nbars, 1 if tier == "quick" else 2)
    nsl = 4 if tier == "quick" else 6
    units = [(s, nbars, extras[i::nsl]) for s in sets for i in range(nsl)]
    merged = {}
    nclasses = 0
    for r in pmap(_work, units):
        rep.add("evaluations", r["evaluations"])
        rep.add("streams", r["evaluations"])
        for case, msg, group in r["violations"]:
            rep.violation(case, msg, group=group)
        for name in ("table", "table_next"):
            tbl = merged.setdefault((r["setting"], name), {})
            for k, v in r[name].items():
                old = tbl.get(k)
                if old is None:
                    tbl[k] = v
                elif old[0] != v[0]:
                    rep.violation(*conflict_violation(v[2], expand(old[1], r["setting"], nbars), expand(v[1], r["setting"], nbars), r["setting"]))
    nclasses = sum(len(t) for t in merged.values())
    rep.set("prefix_classes", nclasses)
    merged.clear()
    xs = [c + (tier,) for c in xy_cases(tier)]
    for r in pmap(_xy_work, shard(xs, 32)):
        rep.add("evaluations", r["evaluations"])
        rep.add("tabular_perturbed_runs", r["evaluations"])
        rep.add("distinct_nontrivial", r["nontrivial"])
        for case, msg, group in r["violations"]:
            rep.violation(case, msg, group=group)
    rep.cov["distinct_nontrivial"] = rep.cov.get("distinct_nontrivial", 0) + rep.cov.get("prefix_classes", 0)
    rep.set("settings", len(sets))
    rep.set("exhaustive", True)
    rep.set("rule", "core: for each of the settings (latency {0,30s} x delay {0,1} x fold {whole, late} x history {all, markov, warm-up} x action script x "
                    "{library features + recording feature, windowed State}) EVERY stream of %d bars x 2 contracts x 2 prices per bar (4^bars value "
                    "assignments) x {no extra, one extra quote or custom event at t+1s / t+L / t+L+1s of each gap} is executed once; the cumulative output "
                    "(observations, rewards, trades, holdings, NLV, track-record entries, recorded callbacks) at each step is filed under the events stamped <= t, "
                    "and the next execution's trades under the events stamped <= t+latency; a prefix class holding two different outputs is a violation. "
                    "tabular: TradingEnvXY x transformer {none, z-score, yeo-johnson, a scaler instance already fitted by the caller (feature rows altered only)} x window x fit date x cut date x perturbation patterns of the next rows of X "
                    "and Y {keep, replace, NaN} + appended rows + truncation, on a complete table and on a gappy one (low-frequency feature, isolated NaN, a row missing from X, a NaN price); distinct_nontrivial = prefix classes + perturbed tabular runs" % nbars)
    rep.set("samples", [{"part": "core", "setting": [30, 1, "late", "all", 0, "features"], "nbars": nbars, "bits": 37, "extra": [4, "Q", 0]},
                        {"part": "xy", "transformer": "z-score", "window": 2, "te": 5, "cut": 7, "pattern": [["alt", "nan"], ["keep", "keep"]]}])
    rep.assumptions = ["decided for the library's own features, a recording feature and the windowed State; user-written features are code the check cannot quantify over",
                       "all streams keep a quote at every grid point, so the step grid is the same for every stream of a setting; `done` is excluded from the compared outputs",
                       "tabular API: transformer_end and the reward scale are fitted on data up to a date <= the cut, as the statement requires"]
    return rep.finish(replay)


def replay(case, **kw):
    if case["part"] == "core":
        table, table_next = {}, {}
        msgs = []
        for c in (case["a"], case["b"]):
            conflicts = run_stream(tuple(c["setting"]), c["nbars"], c["bits"], tuple(c["extra"]) if c["extra"] else None,
                                   table, table_next, lambda: c)
            for what, first, second in conflicts:
                msgs.append("different %s for two streams agreeing up to the cut: %s vs %s" % (what, first, second))
        return msgs
    memo_calendars()
    X, Y, idx = xy_tables(case.get("gappy", False))
    st = idx[case["te"]] if case.get("gappy") == "start" else None
    base = xy_trace(X, Y, case["transformer"], idx[case["te"]], case["window"], idx[case["cut"]], start=st)
    if case["pattern"] is None:
        return []
    if case["pattern"] == "rate":
        rb = xy_trace(X, Y, case["transformer"], idx[case["te"]], case["window"], idx[case["cut"]], xy_rate(idx, None, case.get("late", False)), start=st)
        rp = xy_trace(X, Y, case["transformer"], idx[case["te"]], case["window"], idx[case["cut"]], xy_rate(idx, case["cut"], case.get("late", False)), start=st)
        return [] if rb == rp else ["outputs up to the cut differ after altering later interest-rate fixings"]
    pat = case["pattern"] if isinstance(case["pattern"], str) else tuple(tuple(r) for r in case["pattern"])
    X2, Y2 = apply_pattern(X, Y, idx, case["cut"], pat)
    try:
        got = xy_trace(X2, Y2, case["transformer"], idx[case["te"]], case["window"], idx[case["cut"]], start=st)
    except Exception as ex:
        return ["perturbed run raised %r" % (ex,)]
    return [] if got == base else ["outputs up to the cut differ after perturbing later rows"]


def probe():
    table, tn = {}, {}
    run_stream((30, 1, "late", "all", 0, "features"), 4, 37, (4, "Q", 0), table, tn, lambda: None)
    return repr(sorted(v[0] for v in table.values())) + repr(sorted(v[0] for v in tn.values()))

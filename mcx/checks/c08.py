"""C08 decision-to-execution timing: FIFO delay and latency pricing.

Bounded-exhaustive: bar streams x extra quotes at the latency boundary x latency
x delay x {continuous, discrete} spaces x ALL action sequences over three
pairwise-distinct actions, on the real TradingEnv."""
import itertools
from mcx.envh import *  # noqa
from mcx.enumr import shard
from mcx.common import Report, pmap, close

LEVEL = "exploration"
BASE = datetime(2020, 1, 6, 10, 0, 0)
BOX_ACTIONS = [(0.5, 0.25), (0.25, 0.5), (-0.25, 0.75)]
DISC_ALLOC = {
    "disc0": [[0.0, 0.0], [0.5, 0.25], [0.25, 0.5], [-0.25, 0.75]],
    "disc1": [[0.125, 0.0625], [0.5, 0.25], [0.25, 0.5], [-0.25, 0.75]],
    # action 0 is NOT the flat allocation, a later action is: the null action of a discrete space is still action 0
    "disc2": [[0.125, 0.0625], [0.0, 0.0], [0.25, 0.5], [-0.25, 0.75]],
}


def grid(n):
    return [BASE + timedelta(minutes=i) for i in range(n)]


def extra_positions(G, L):
    pos = []
    for t, t2 in zip(G, G[1:]):
        pos.append(t + timedelta(seconds=1))
        if L:
            pos.append(t + timedelta(seconds=L))
        pos.append(t + timedelta(seconds=L + 0.4))      # a fraction of a second after the window closes
        pos.append(t2 - timedelta(seconds=1))
    return sorted(set(pos))


def make_env(nbars, L, d, space, extras, late=False):
    reset_clock()
    G = grid(nbars)
    contracts = [A, B]
    bars = bar_events(G, contracts, base=64.0, spread=2.0, step=4.0)
    pos = extra_positions(G, L)
    ex = [EventNBBO(pos[pi], A, 300.0 + 8 * j, 302.0 + 8 * j) for j, pi in enumerate(extras)]
    if late == "samemid":
        # the extra quotes WIDEN the spread around the unchanged mid of the prevailing bar (a liquidity withdrawal): the mid does not
        # move, the execution prices do
        def mid_at(t):
            m = [(e.bid_price + e.ask_price) / 2 for e in bars if e.contract is A and e.time <= t]
            return m[-1]
        ex = [EventNBBO(pos[pi], A, mid_at(pos[pi]) - 3.0 - j, mid_at(pos[pi]) + 3.0 + j) for j, pi in enumerate(extras)]
    evs = bars + ex
    if late == "revised":
        # every quote of contract A is followed by a REVISION carrying the identical stamp (added to the transmitter later):
        # "the last quote stamped <= t + latency" is then the revision - equal stamps keep their insertion order
        evs = evs + [EventNBBO(e.time, e.contract, e.bid_price + 0.5, e.ask_price + 0.75) for e in bars + ex if e.contract is A]
    if late == "markov":
        # markov reset into a fold that starts at the SECOND timestep: nothing before the episode's first timestep is replayed, and the
        # first timestep's own events (latent ones first) are delivered at reset - the first execution is priced like any other
        tr = Transmitter(list(G), folds={"training-set": [G[1], G[-1]]}, markov_reset=True)
    else:
        tr = Transmitter(list(G))
    tr.add_events(list(evs))
    sink = []
    rec = Rec(sink)
    if space == "box":
        sp = BoxPortfolio(contracts, -1.0, 1.0)
    else:
        sp = DiscretePortfolio(contracts, DISC_ALLOC[space])
    if late == "shared":
        # another environment with a DIFFERENT latency was built on the same transmitter first (e.g. a zero-latency baseline)
        TradingEnv(BoxPortfolio(contracts, -1.0, 1.0), transmitter=tr, latency=0 if L else 1)
    env = TradingEnv(sp, transmitter=tr, state=rec, latency=L, steps_delay=d, initial_cash=65536.0)
    if late is True:
        # price-free events handed to the transmitter AFTER the environment was built (public API); whether they are
        # delivered is not C08's subject, but the executions must still follow the configured latency
        tr.add_events([Custom(G[1] + timedelta(seconds=1), 0), Custom(G[2] + timedelta(seconds=L + 1), 1)])
    if late == "markov":
        G = G[1:]
    return env, sink, evs, G


def expected_alloc(space, action):
    if space == "box":
        vec = action
    else:
        vec = DISC_ALLOC[space][action]
    return {c.symbol: float(w) for c, w in zip([A, B], vec) if w != 0}


def null_of(space):
    return (0.0, 0.0) if space == "box" else 0


def run_sequence(env, sink, evs, G, L, d, space, seq):
    """One episode with the given action sequence; returns messages."""
    msgs = []
    lo = len(sink)
    idmap = {id(e): i for i, e in enumerate(evs)}
    try:
        env.reset()
        infos = []
        for k, a in enumerate(seq):
            act = np.array(BOX_ACTIONS[a]) if space == "box" else a + 1
            o, r, done, info = env.step(act)
            infos.append(info)
            if done and k < len(seq) - 1:
                msgs.append("done after %d of %d steps" % (k + 1, len(seq)))
                break
    except Exception as ex:
        return ["exception escaped reset/step: %r" % (ex,)]
    tr = env.broker.track_record
    if len(tr) != len(seq):
        return msgs + ["%d executions recorded for %d decisions" % (len(tr), len(seq))]
    submitted = [(BOX_ACTIONS[a] if space == "box" else a + 1) for a in seq]
    for j in range(len(seq)):
        src = submitted[j - d] if j - d >= 0 else null_of(space)
        exp = expected_alloc(space, src)
        got = {getattr(c, "symbol", str(c)): float(w) for c, w in tr[j].allocation.items()}
        if got != exp:
            msgs.append("execution %d (delay %d) carried allocation %r, expected the decision submitted %d steps earlier: %r"
                        % (j, d, got, d, exp))
        # pricing: last quote stamped <= G[j] + latency, per contract
        bound = G[j] + timedelta(seconds=L)
        for trade in tr[j].trades:
            best = None
            for i, e in enumerate(evs):
                if isinstance(e, EventNBBO) and e.contract.symbol == trade.contract.symbol and e.time <= bound:
                    if best is None or (e.time, i) >= (best.time, idmap[id(best)]):
                        best = e
            if best is None or trade.bid_price != best.bid_price or trade.ask_price != best.ask_price:
                msgs.append("execution %d priced %s at %r/%r but the last quote stamped <= t+latency (%s) is %r/%r (stamped %s)"
                            % (j, trade.contract.symbol, trade.bid_price, trade.ask_price, bound,
                               best and best.bid_price, best and best.ask_price, best and best.time))
            exp_px = trade.ask_price if trade.quantity > 0 else trade.bid_price
            if trade.acq_price != exp_px:
                msgs.append("execution %d: acquisition price %r is not the %s" % (j, trade.acq_price, "ask" if trade.quantity > 0 else "bid"))
    # delivery side of the same rule: quotes in (t, t+L] before the execution, (t+L, t'] after it
    for ent in sink[lo:]:
        if ent[0] != "E":
            continue
        t = ent[2]
        if t <= G[0]:
            continue
        j = max(i for i, g in enumerate(G) if g < t)  # G[j] < t <= G[j+1]
        if j >= len(seq):
            continue
        latent = (t - G[j]).total_seconds() <= L
        want = j if latent else j + 1
        if ent[3] != want:
            msgs.append("quote stamped %s was applied %s execution %d (latency %s s)"
                        % (t, "after" if ent[3] > want else "before", j, L))
    return msgs


def units(tier):
    nbars = 5
    max_extra = 1 if tier == "quick" else 2
    delays = [0, 1, 2, 3]
    out = []
    for L in (0, 30, 4.1, 8.2, 0.1):     # incl. latencies that are not representable exactly in binary, and a sub-second one
        npos = len(extra_positions(grid(nbars), L))
        for k in range(max_extra + 1):
            for extras in itertools.combinations(range(npos), k):
                for d in delays:
                    for space in ("box", "disc0", "disc1"):
                        out.append((nbars, L, d, space, list(extras)))
                    if not extras and d:
                        out.append((nbars, L, d, "disc2", []))
    # two quotes for the same contract inside ONE latency window / one gap (the LAST one prices the execution)
    for L in (30, 4.1):
        pos = extra_positions(grid(nbars), L)
        per_gap = len(pos) // (nbars - 1)
        for g in range(nbars - 1):
            idx = list(range(g * per_gap, (g + 1) * per_gap))
            for pair in itertools.combinations(idx, 2):
                for d in (0, 2):
                    out.append((nbars, L, d, "box", list(pair)))
    # events added to the transmitter after the environment was built must not disturb the latency rule
    for L in (30, 4.1):
        npos = len(extra_positions(grid(nbars), L))
        for extras in [[]] + [[i] for i in range(npos)]:
            for d, space in ((0, "box"), (1, "disc1")):
                out.append((nbars, L, d, space, extras, True))
    # a transmitter shared with an environment of another latency built before
    for L in (0, 30, 4.1):
        npos = len(extra_positions(grid(nbars), L))
        for extras in [[]] + [[i] for i in range(npos)]:
            for d, space in ((0, "box"), (1, "disc1")):
                out.append((nbars, L, d, space, extras, "shared"))
    # markov reset into a later fold: the first batch of the episode is delivered at reset, latent events first
    for L in (30, 4.1):
        npos = len(extra_positions(grid(nbars), L))
        for extras in [[]] + [[i] for i in range(npos)]:
            for d, space in ((0, "box"), (1, "disc1")):
                out.append((nbars, L, d, space, extras, "markov"))
    # extra quotes that widen the spread around an unchanged mid
    for L in (0, 30):
        npos = len(extra_positions(grid(nbars), L))
        for extras in [[i] for i in range(npos)]:
            for d, space in ((0, "box"), (1, "disc1")):
                out.append((nbars, L, d, space, extras, "samemid"))
    # revised quotes (same stamp, inserted later) on a stream long enough (24+ events) for any unstable ordering to show
    for L in (0, 30, 4.1):
        npos = len(extra_positions(grid(8), L))
        for extras in ([], [1], [npos - 3]) if L else ([],):
            for d, space in ((0, "box"), (1, "disc1")):
                out.append((8, L, d, space, extras, "revised"))
    # long episodes: the delay queue must not wrap, drop or repeat decisions after many steps
    for d, space in ((3, "box"), (2, "disc1")) if tier == "quick" else ((0, "box"), (1, "disc1"), (3, "box"), (4, "disc1"), (5, "box")):
        out.append((8 if tier == "quick" else 9, 30, d, space, []))
    return out


def _work(chunk):
    out = {"evaluations": 0, "violations": [], "outcomes": set(), "nontrivial": set()}
    for unit in chunk:
        (nbars, L, d, space, extras), late = unit[:5], (len(unit) > 5 and unit[5])
        try:
            env, sink, evs, G = make_env(nbars, L, d, space, extras, late)
        except Exception as ex:
            out["evaluations"] += 1
            out["violations"].append(({"nbars": nbars, "L": L, "d": d, "space": space, "extras": extras, "seq": [], "late": late},
                                      "building the environment raised %r" % (ex,), ("build", space, d)))
            continue
        for si, seq in enumerate(itertools.product(range(3), repeat=len(G) - 1)):
            msgs = run_sequence(env, sink, evs, G, L, d, space, seq)
            out["evaluations"] += 1
            tr = env.broker.track_record
            sig = hash((L, d, space, late, tuple(extras), tuple(tuple(sorted((str(k), float(v)) for k, v in tr[j].allocation.items())) for j in range(len(tr))),
                        tuple(t.acq_price for j in range(len(tr)) for t in tr[j].trades)))
            out["outcomes"].add(sig)
            if d > 0 or extras:
                out["nontrivial"].add(sig)
            if msgs:
                # minimal replay: the sequence alone on a fresh environment if that reproduces it,
                # otherwise all earlier episodes on the same environment are part of the counterexample
                alone = replay({"nbars": nbars, "L": L, "d": d, "space": space, "extras": extras, "seq": list(seq), "prior": 0, "late": late})
                prior = 0 if alone else si
                note = "" if prior == 0 else " (only after %d earlier episodes on the same environment)" % prior
                out["violations"].append(({"nbars": nbars, "L": L, "d": d, "space": space, "extras": extras, "seq": list(seq), "prior": prior, "late": late},
                                          "; ".join(msgs[:3]) + note, (msgs[0].split(" ")[0], space, d, L, prior > 0, late)))
                if len(out["violations"]) > 50:
                    return out
    return out


def run(tier, **kw):
    rep = Report("C08", tier, LEVEL)
    us = units(tier)
    outcomes, nontrivial = set(), set()
    for r in pmap(_work, shard(us, 96)):
        rep.add("evaluations", r["evaluations"])
        outcomes |= r["outcomes"]
        nontrivial |= r["nontrivial"]
        for case, msg, group in r["violations"]:
            rep.violation(case, msg, group=group)
    rep.set("environments_built", len(us))
    rep.set("distinct_outcomes", len(outcomes))
    rep.set("distinct_nontrivial", len(nontrivial))
    rep.set("exhaustive", True)
    rep.set("rule", "one evaluation = one complete episode; enumerated: 5-bar stream (2 contracts, every bar a distinct price, spread 2) x latency "
                    "{0, 30s, 4.1s, 8.2s, 0.1s} x every subset of <= 1 (quick) / <= 2 (thorough) extra quotes over {t+1s, t+L, t+L+0.4s, t'-1s} of every consecutive "
                    "pair x delay {0,1,2,3} x {Box, Discrete with zero first allocation, Discrete with non-zero first allocation, Discrete whose flat allocation is not action 0} x all 3^4 "
                    "action sequences over 3 pairwise-distinct actions, plus the latency > 0 configurations with price-free events added to the transmitter after the environment was built, configurations in which every quote of one contract is followed by a revision with the identical stamp (8 bars, 24+ events), and configurations whose extra quote widens the spread around the unchanged mid of the prevailing bar, configurations under markov reset into a fold starting at the second timestep, and configurations whose transmitter was first used to build an environment with another latency (same environment reused across sequences via reset); non-trivial = "
                    "distinct (allocations executed, trade prices) outcome with delay > 0 or an extra quote")
    rep.set("samples", [{"nbars": 5, "L": 30, "d": 2, "space": "disc1", "extras": [1], "seq": [0, 2, 1, 1]}])
    rep.assumptions = ["with delay > 0 the null action belongs to the space (Box bounds include 0)",
                       "bar-shaped stream: grid and episode steps coincide"]
    return rep.finish(replay)


def replay(case, **kw):
    try:
        env, sink, evs, G = make_env(case["nbars"], case["L"], case["d"], case["space"], case["extras"], case.get("late", False))
    except Exception as ex:
        return ["building the environment raised %r" % (ex,)]
    if not case["seq"]:
        return []
    n = len(case["seq"])
    for si, seq in enumerate(itertools.product(range(3), repeat=n)):
        if si >= case.get("prior", 0):
            break
        run_sequence(env, sink, evs, G, case["L"], case["d"], case["space"], seq)
    return run_sequence(env, sink, evs, G, case["L"], case["d"], case["space"], tuple(case["seq"]))


def probe():
    env, sink, evs, G = make_env(5, 30, 1, "box", [1])
    run_sequence(env, sink, evs, G, 30, 1, "box", (0, 1, 2, 0))
    tr = env.broker.track_record
    return repr([[(t.contract.symbol, float(t.quantity).hex(), t.acq_price) for t in tr[j].trades] for j in range(len(tr))])

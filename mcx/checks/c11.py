"""C11 futures chains trade the live lead contract and roll before expiry.

(a) region enumeration of lead resolution: lead_contract(now) is piecewise
    constant in `now` with breakpoints at the last-trading instants, so every
    breakpoint, both sides of it and one interior point per interval are complete.
(b) roll through the real TradingEnv: chains x grids (strides and phases around
    the roll window) x periodic action scripts x spread x threshold."""
import itertools
from mcx.envh import *  # noqa
from mcx.enumr import shard
from mcx.common import Report, pmap, close
from tradingenv import contracts as K
from tradingenv.contracts import FutureChain
from tradingenv.broker.allocation import Weights

LEVEL = "exploration"
CLASSES_ALL = ["ES", "NK", "VX", "ZQ", "ZT", "ZF", "ZN", "ZB"]
ONE = timedelta(seconds=1)


from tradingenv.spaces import DiscretePortfolio


def as_dt(x):
    return x.to_pydatetime() if hasattr(x, "to_pydatetime") else x


# ---------------------------------------------------------------------------
# (a) lead resolution

def ref_lead(contracts, now, offset):
    """earliest last-trading date strictly later than now, shifted by the month offset"""
    order = sorted(contracts, key=lambda c: as_dt(c.last_trading_date))
    for i, c in enumerate(order):
        if as_dt(c.last_trading_date) > now:
            j = i + offset
            return order[j] if j < len(order) else None
    return None


def check_lead(name, start, end, offset):
    cls = getattr(K, name)
    msgs = []
    n = 0
    reset_clock()
    chain = FutureChain(cls, start, end, month=offset)
    cs = chain.contracts
    ltds = [as_dt(c.last_trading_date) for c in cs]
    pts = set()
    for i, L in enumerate(ltds):
        pts |= {L - ONE, L, L + ONE}
        if i + 1 < len(ltds):
            pts.add(L + (ltds[i + 1] - L) / 2)
    pts.add(ltds[0] - timedelta(days=5))
    prev_idx = -1
    ex = Exchange()
    # the same chain built from an explicit contract list given in REVERSE order, and queried with other time types
    try:
        chain_rev = FutureChain(contracts=list(cs)[::-1], month=offset)
        if [c.symbol for c in chain_rev.contracts] != [c.symbol for c in sorted(cs, key=lambda c: as_dt(c.last_trading_date))]:
            msgs.append("%s chain built from a reversed contract list is not ordered by last trading date: %s"
                        % (name, [c.symbol for c in chain_rev.contracts][:6]))
    except Exception as e:
        chain_rev = None
        msgs.append("%s chain from an explicit contract list raised %r" % (name, e))
    # a SPARSER listing with the same first contract (every other contract), living in the same process and asked at the same instants
    cs_sparse = list(cs)[::2]
    try:
        chain_sparse = FutureChain(contracts=list(cs_sparse), month=offset) if len(cs_sparse) > offset + 1 else None
    except Exception as e:
        chain_sparse = None
        msgs.append("%s chain from an explicit (every other contract) list raised %r" % (name, e))
    import pandas as _pd
    for now in sorted(pts):
        want = ref_lead(cs, now, offset)
        if want is None:
            continue   # no listed contract is live (+offset) at this instant: outside the chain's span
        n += 1
        try:
            got = chain.lead_contract(now)
        except Exception as e:
            msgs.append("%s chain (offset %d): lead_contract(%s) raised %r" % (name, offset, now, e))
            continue
        if got is not want:
            msgs.append("%s chain (offset %d): lead_contract(%s) = %s (last trading %s), expected %s (last trading %s)"
                        % (name, offset, now, got.symbol, got.last_trading_date, want.symbol, want.last_trading_date))
            continue
        try:
            if chain_rev is not None and chain_rev.lead_contract(now).symbol != want.symbol:
                msgs.append("%s chain built from a reversed contract list resolves %s at %s, expected %s"
                            % (name, chain_rev.lead_contract(now).symbol, now, want.symbol))
            want_sp = ref_lead(cs_sparse, now, offset) if chain_sparse is not None else None
            if want_sp is not None and chain_sparse.lead_contract(now) is not want_sp:
                msgs.append("%s chain listing every other contract resolves %s at %s (asked right after the full chain), expected %s"
                            % (name, chain_sparse.lead_contract(now).symbol, now, want_sp.symbol))
            if chain.lead_contract(_pd.Timestamp(now)).symbol != want.symbol:
                msgs.append("%s chain: lead_contract(pandas.Timestamp(%s)) = %s, expected %s"
                            % (name, now, chain.lead_contract(_pd.Timestamp(now)).symbol, want.symbol))
            want1 = ref_lead(cs, now, offset + 1)
            if want1 is not None and chain.lead_contract(now, month=1) is not want1:
                msgs.append("%s chain (offset %d): lead_contract(%s, month=1) = %s, expected %s"
                            % (name, offset, now, chain.lead_contract(now, month=1).symbol, want1.symbol))
        except Exception as e:
            msgs.append("%s chain: alternative resolution at %s raised %r" % (name, now, e))
        if not (as_dt(got.last_trading_date) > now):
            msgs.append("%s chain: resolved contract %s is past its last trading date at %s" % (name, got.symbol, now))
        idx = cs.index(got)
        if idx < prev_idx:
            msgs.append("%s chain: lead moved backwards at %s" % (name, now))
        prev_idx = idx
        # the same resolution through the shared clock: symbol, exchange key, allocation key
        AbstractContract.now = now
        try:
            if chain.symbol != want.symbol or chain.static_hashing() is not want:
                msgs.append("%s chain at clock %s: symbol/static_hashing resolve to %s, expected %s" % (name, now, chain.symbol, want.symbol))
            if ex[chain] is not ex[want]:
                msgs.append("%s chain at clock %s: Exchange[chain] is not the book of %s" % (name, now, want.symbol))
            w = Weights(keys=[chain], values=[0.5])
            if list(w.keys()) != [want]:
                msgs.append("%s chain at clock %s: allocation keyed by %r, expected %s" % (name, now, list(w.keys()), want.symbol))
        except Exception as e:
            msgs.append("%s chain at clock %s: resolution through the clock raised %r" % (name, now, e))
        finally:
            reset_clock()
    return msgs, n


def lead_cases(tier):
    out = []
    years = [1998, 2008, 2020, 2021] if tier == "quick" else list(range(1998, 2030, 3))
    for name in CLASSES_ALL:
        for y in years:
            if name == "VX" and y < 2005:
                continue
            for span in (1, 3):
                for offset in (0, 1, 2):
                    out.append((name, y, span, offset))
    return out


def _lead_work(chunk):
    out = {"evaluations": 0, "violations": [], "nontrivial": 0}
    for (name, y, span, offset) in chunk:
        try:
            msgs, n = check_lead(name, datetime(y, 1, 1), datetime(y + span - 1, 12, 31), offset)
        except Exception as e:
            msgs, n = ["%s chain %d+%d offset %d: harness raised %r" % (name, y, span, offset, e)], 0
        out["evaluations"] += n
        out["nontrivial"] += n
        if msgs:
            out["violations"].append(({"part": "lead", "cls": name, "year": y, "span": span, "offset": offset}, "; ".join(msgs[:2]),
                                      ("lead", name, offset)))
    return out


# ---------------------------------------------------------------------------
# (b) rolling through the environment

ACTION_KINDS = ["+w", "-w", "0", "w+", "small", "-small"]


def bdays(start, end, calendar_days=False):
    out, d = [], start
    while d <= end:
        if calendar_days or d.weekday() < 5:
            out.append(d)
        d += timedelta(days=1)
    return out


def roll_setup(name, year, rolls, month=0):
    """chain and the window of days covering `rolls` roll(s) of the given class"""
    cls = getattr(K, name)
    reset_clock()
    chain = FutureChain(cls, datetime(year, 1, 1), datetime(year + 1, 6, 30), month=month)
    cs = chain.contracts
    first = 1 if name == "VX" else 0
    c0 = cs[first]
    cl = cs[first + rolls - 1]
    start = as_dt(c0.last_trading_date) - timedelta(days=9)
    end = as_dt(cl.expiry) + timedelta(days=6)
    return chain, start, end


def run_roll(name, year, rolls, stride, phase, script, spread, threshold, calendar_days, month=0, fractional=True, late=False, delay=0, feed="events", space="box"):
    chain, start, end = roll_setup(name, year, rolls, month)
    days_ = bdays(start, end, calendar_days)[phase::stride]
    # `late`: decisions are taken at 23:30 of the previous day with a latency of one hour, and every contract is re-quoted at
    # 00:15 - inside the latency window - so the execution clock can be PAST a last-trading instant (midnight) that the
    # decision time precedes: the chain must be resolved at execution time
    exec_shift = timedelta(minutes=45) if late else timedelta(0)
    if late:
        days_ = [d - timedelta(minutes=30) for d in days_]
    cs = chain.contracts
    mult = cs[0].multiplier
    msgs = []
    # proviso of the statement: for every contract whose last-trading date falls inside the episode there must be
    # a step in [last trading, expiry) that is followed by another step
    for ci, c in enumerate(cs):
        ltd, exp = as_dt(c.last_trading_date), as_dt(c.expiry)
        if month and ci - month >= 0:
            # with a month offset the contract stops being the resolved one when the FRONT contract rolls
            ltd = as_dt(cs[ci - month].last_trading_date)
        if days_[0] + exec_shift < ltd <= days_[-1] + exec_shift:
            inside = [i for i, g in enumerate(days_) if ltd <= g + exec_shift < exp and i + 1 < len(days_)]
            if not inside:
                return None, 0   # grid outside the quantifier's domain for this class
    base = {"ES": 3000.0, "NK": 20000.0, "VX": 20.0}.get(name, 120.0)
    evs = []
    px = {}
    for i, g in enumerate(days_):
        for j, c in enumerate(cs):
            if g < as_dt(c.expiry):
                mid = base * (1 + 0.002 * i + 0.01 * j)
                px[(c.symbol, i)] = (mid - spread * base / 2, mid + spread * base / 2)
                evs.append(EventNBBO(g, c, mid - spread * base / 2, mid + spread * base / 2))
            if late and g + exec_shift < as_dt(c.expiry):
                mid2 = base * (1 + 0.002 * i + 0.01 * j) * 1.001
                px[(c.symbol, i)] = (mid2 - spread * base / 2, mid2 + spread * base / 2)
                evs.append(EventNBBO(g + exec_shift, c, mid2 - spread * base / 2, mid2 + spread * base / 2))
    reset_clock()
    tr = Transmitter(list(days_))
    if feed == "prices":
        # the same quotes handed over as a table of mid prices (Transmitter.add_prices): every row of every column is a quote,
        # also the rows of a contract between its last trading date and its expiry
        import pandas as pd
        table = {}
        for e in evs:
            table.setdefault(e.contract, {})[e.time] = (e.bid_price + e.ask_price) / 2
        tr.add_prices(pd.DataFrame({c: pd.Series(v) for c, v in table.items()}).sort_index())
    else:
        tr.add_events(evs)
    DISC_W = [0.0, 0.5, -0.5, 0.52, 0.03, -0.03]
    if space == "disc":
        # a discrete menu of chain allocations: the same action index is submitted before and after a roll
        sp = DiscretePortfolio([chain], [[w_] for w_ in DISC_W])
    else:
        sp = BoxPortfolio([chain], -2.0, 2.0, margin=threshold, fractional=fractional)
    env = TradingEnv(sp, transmitter=tr, initial_cash=1e7, latency=3600 if late else 0, steps_delay=delay)
    try:
        env.reset()
    except Exception as e:
        return ["reset raised %r" % (e,)], 0
    w0 = 0.5
    steps = 0
    rolled = 0
    prev_lead = None
    submitted = []
    for k in range(1, len(days_)):
        kind = ACTION_KINDS[script[(k - 1) % len(script)]]
        # "small": a position worth less than the 5% threshold, reached by cutting a larger one
        w_sub = {"+w": w0, "-w": -w0, "0": 0.0, "w+": w0 + 0.02, "small": 0.03, "-small": -0.03}[kind]
        submitted.append(w_sub)
        # with an execution delay the allocation executed now is the one submitted `delay` decisions earlier (null action before
        # that); the chain is resolved when the execution takes place, not when the decision was submitted
        w = submitted[-1 - delay] if len(submitted) > delay else 0.0
        D = days_[k - 1] + exec_shift      # the simulation time at which the execution takes place
        lead = ref_lead(cs, D, month)
        try:
            o, r, done, info = env.step(np.array([w_sub]) if space == "box" else DISC_W.index(w_sub))
        except Exception as e:
            msgs.append("step %d (decision time %s, lead %s) raised %r" % (k, D, lead.symbol if lead else None, e))
            break
        steps += 1
        hq = env.broker.holdings_quantity
        for c in cs:
            q = hq.get(c, 0.0)
            if c is not lead and q != 0:
                msgs.append("after the rebalance decided at %s (lead %s) contract %s still holds %r" % (D, lead.symbol, c.symbol, q))
            if q != 0 and env.now() >= as_dt(c.expiry):
                msgs.append("contract %s held (%r) at %s, at or after its expiry %s" % (c.symbol, q, env.now(), c.expiry))
        if prev_lead is not None and lead is not prev_lead:
            rolled += 1
        prev_lead = lead
        rb = info.get("_rebalancing")
        if rb is not None:
            bid, ask = px[(lead.symbol, k - 1)]
            q = hq.get(lead, 0.0)
            traded = [t for t in rb.trades if t.contract is lead or t.contract == lead]
            if not fractional:
                if q != int(q):
                    msgs.append("whole-lot chain position %r in %s is not an integer" % (q, lead.symbol))
            elif threshold == 0 or traded:
                exec_px = ask if w > 0 else bid
                if not close(q * mult * exec_px, w * rb.context_pre.nlv, 1e-9):
                    msgs.append("decision at %s: position %r in lead %s x multiplier x %r = %r, target %r x NLV %r = %r"
                                % (D, q, lead.symbol, exec_px, q * mult * exec_px, w, rb.context_pre.nlv, w * rb.context_pre.nlv))
            for t in rb.trades:
                if t.contract is not lead and hq.get(t.contract, 0.0) != 0:
                    msgs.append("trade in non-lead %s left a position" % t.contract.symbol)
                # "at prevailing quotes": every trade of the roll is priced at the latest quote fed for its contract
                fed = px.get((t.contract.symbol, k - 1))
                if fed is not None and (t.bid_price, t.ask_price) != fed:
                    msgs.append("decision at %s: trade in %s priced at %r/%r, the prevailing quote fed for it is %r/%r"
                                % (D, t.contract.symbol, t.bid_price, t.ask_price, fed[0], fed[1]))
        if msgs or done:
            break
    return msgs, rolled


def run_pair(years, scripts, schedule, spread):
    """Two environments over ES chains of DIFFERENT years living in one process and stepped in the given interleaving (a string of
    0/1): each chain must be resolved at the simulation time of ITS OWN environment, whatever the other one did in between."""
    reset_clock()
    setups = []
    for y in years:
        chain = FutureChain(K.ES, datetime(y, 1, 1), datetime(y + 1, 6, 30))
        cs = chain.contracts
        start = as_dt(cs[0].last_trading_date) - timedelta(days=9)
        end = as_dt(cs[0].expiry) + timedelta(days=6)
        setups.append((chain, bdays(start, end)))
    envs = []
    for chain, days_ in setups:
        evs, px = [], {}
        for i, g in enumerate(days_):
            for j, c in enumerate(chain.contracts):
                if g < as_dt(c.expiry):
                    mid = 3000.0 * (1 + 0.002 * i + 0.01 * j)
                    px[(c.symbol, i)] = (mid - spread * 1500.0, mid + spread * 1500.0)
                    evs.append(EventNBBO(g, c, *px[(c.symbol, i)]))
        tr = Transmitter(list(days_))
        tr.add_events(evs)
        envs.append([TradingEnv(BoxPortfolio([chain], -2.0, 2.0), transmitter=tr, initial_cash=1e7), chain, days_, px, 0])
    msgs = []
    rolled = 0
    for e in envs:
        e[0].reset()
    for who in schedule:
        e = envs[int(who)]
        env, chain, days_, px, k = e
        if k + 1 >= len(days_):
            continue
        e[4] = k = k + 1
        w = {0: 0.5, 1: -0.5, 2: 0.0}[scripts[int(who)][(k - 1) % len(scripts[int(who)])]]
        D = days_[k - 1]
        cs = chain.contracts
        lead = ref_lead(cs, D, 0)
        try:
            o, r, done, info = env.step(np.array([w]))
        except Exception as ex:
            msgs.append("environment %s step %d (decision time %s, lead %s) raised %r" % (who, k, D, lead.symbol, ex))
            break
        hq = env.broker.holdings_quantity
        for c in cs:
            q = hq.get(c, 0.0)
            if c is not lead and q != 0:
                msgs.append("environment %s: after the rebalance decided at %s (lead %s) contract %s holds %r" % (who, D, lead.symbol, c.symbol, q))
        q = hq.get(lead, 0.0)
        rb = info.get("_rebalancing")
        if rb is not None:
            bid, ask = px[(lead.symbol, k - 1)]
            if not close(q * cs[0].multiplier * (ask if w > 0 else bid), w * rb.context_pre.nlv, 1e-9):
                msgs.append("environment %s decision at %s: position %r in lead %s does not match target %r x NLV %r at %r/%r"
                            % (who, D, q, lead.symbol, w, rb.context_pre.nlv, bid, ask))
        if lead is not cs[0]:
            rolled = 1
        if msgs:
            break
    return msgs, rolled


def pair_cases(tier):
    out = []
    n = 12
    scheds = ["01" * n, "0011" * (n // 2) + "01" * 4, "0" * 5 + "1" * 9 + "0" * 9 + "1" * 5, "1" * 14 + "0" * 14]
    for years in ((2021, 2019), (2019, 2021), (2021, 2021)):
        for sa in itertools.product(range(3), repeat=2):
            for sb in itertools.product(range(3), repeat=2):
                for sched in scheds:
                    for spread in (0.0, 0.002):
                        out.append((list(years), [list(sa), list(sb)], sched, spread))
    return out


def _pair_work(chunk):
    out = {"evaluations": 0, "violations": [], "nontrivial": 0}
    for case in chunk:
        try:
            msgs, rolled = run_pair(*case)
        except Exception as e:
            msgs, rolled = ["harness raised %r" % (e,)], 0
        out["evaluations"] += 1
        out["nontrivial"] += rolled
        if msgs:
            out["violations"].append(({"part": "pair", "case": case}, "pair %s: %s" % (case, "; ".join(msgs[:2])), ("pair", msgs[0].split(" ")[2])))
    return out


def roll_cases(tier):
    out = []
    classes = [("ES", 2021), ("VX", 2021)] if tier == "quick" else [("ES", 2021), ("VX", 2021), ("NK", 2021), ("ZN", 2021), ("ES", 2019)]
    n = 3 if tier == "quick" else 4
    scripts = list(itertools.product(range(len(ACTION_KINDS)), repeat=n))
    for name, year in classes:
        strides = [1, 2, 3, 4, 5] if name != "VX" else [1]
        rolls = 1 if tier == "quick" else 2
        for stride in strides:
            for phase in range(stride):
                for calendar_days in ((False, True) if name == "VX" else (False,)):
                    for spread in (0.0, 0.002):
                        for threshold in (0.0, 0.05):
                            for script in scripts:
                                out.append((name, year, rolls, stride, phase, script, spread, threshold, calendar_days, 0))
                                if name == "ES" and stride in (1, 3) and spread and threshold == 0.0:
                                    out.append((name, year, rolls, stride, phase, script, spread, threshold, calendar_days, 1))
                                    out.append((name, year, rolls, stride, phase, script, spread, threshold, calendar_days, 0, False))
                                if name == "ES" and stride in (1, 2) and spread and threshold == 0.0:
                                    out.append((name, year, rolls, stride, phase, script, spread, threshold, calendar_days, 0, True, True))
                                if name == "ES" and stride in (1, 3) and spread and threshold == 0.0:
                                    for delay in (0, 1):      # the chain as the underlying of a DISCRETE action space
                                        out.append((name, year, rolls, stride, phase, script, spread, threshold, calendar_days, 0, True, False, delay, "events", "disc"))
                                if name == "ES" and not spread and threshold == 0.0:
                                    out.append((name, year, rolls, stride, phase, script, spread, threshold, calendar_days, 0, True, False, 0, "prices"))
                                if name == "ES" and stride in (1, 2) and spread and threshold == 0.0:
                                    for delay in (1, 2):      # decisions in flight across the roll
                                        out.append((name, year, rolls, stride, phase, script, spread, threshold, calendar_days, 0, True, False, delay))
    return out


def _roll_work(chunk):
    out = {"evaluations": 0, "violations": [], "nontrivial": set(), "skipped": 0, "outcomes": set()}
    for case in chunk:
        try:
            msgs, rolled = run_roll(*case)
        except Exception as e:
            msgs, rolled = ["harness raised %r" % (e,)], 0
        if msgs is None:
            out["skipped"] += 1
            continue
        out["evaluations"] += 1
        if rolled:
            out["nontrivial"].add(case)
        if msgs:
            out["violations"].append(({"part": "roll", "case": [list(x) if isinstance(x, tuple) else x for x in case]},
                                      "%s: %s" % (case[:5] + case[6:], "; ".join(msgs[:2])), ("roll", case[0], msgs[0].split(" ")[0])))
    return out


def run(tier, **kw):
    rep = Report("C11", tier, LEVEL)
    nt = 0
    for r in pmap(_lead_work, shard(lead_cases(tier), 32)):
        rep.add("evaluations", r["evaluations"])
        rep.add("lead_resolution_points", r["evaluations"])
        nt += r["nontrivial"]
        for case, msg, group in r["violations"]:
            rep.violation(case, msg, group=group)
    rc = roll_cases(tier)
    rolled = set()
    for r in pmap(_roll_work, shard(rc, 96)):
        rep.add("evaluations", r["evaluations"])
        rep.add("roll_episodes", r["evaluations"])
        rep.add("roll_grids_outside_domain", r["skipped"])
        rolled |= r["nontrivial"]
        for case, msg, group in r["violations"]:
            rep.violation(case, msg, group=group)
    pairs_rolled = 0
    for r in pmap(_pair_work, shard(pair_cases(tier), 32)):
        rep.add("evaluations", r["evaluations"])
        rep.add("interleaved_pairs", r["evaluations"])
        pairs_rolled += r["nontrivial"]
        for case, msg, group in r["violations"]:
            rep.violation(case, msg, group=group)
    rep.set("roll_episodes_that_rolled", len(rolled))
    rep.set("distinct_nontrivial", nt + len(rolled) + pairs_rolled)
    rep.set("exhaustive", True)
    rep.set("rule", "lead resolution: for 8 classes x start years x spans {1,3} years x month offsets {0,1,2}: every last-trading instant L, L-1s, L+1s, "
                    "the midpoint of every interval and one instant before the first (complete for a piecewise-constant function), each also through the "
                    "shared clock (symbol, Exchange[chain], allocation key); roll episodes: chains x stride 1-5 business days x every phase x periodic "
                    "action scripts (all 6^3 quick / 6^4 thorough over {+w,-w,0,w+small, +3%, -3%}) x spread {0, 0.2%} x threshold {0, 5%}; grids for which no step "
                    "falls in [last trading, expiry) of some contract are outside the statement's proviso and skipped (counted); interleaved pairs: two environments over ES chains "
                    "(years 2021/2019, 2019/2021, same year) stepped in 4 interleavings (alternating, pairwise, blocks, one after the other) x 3^2 x 3^2 periodic scripts x spread, each chain "
                    "resolved at its own environment's time; non-trivial = lead points + episodes that rolled")
    rep.set("samples", [{"part": "lead", "cls": "ES", "year": 2021, "span": 1, "offset": 1},
                        {"part": "roll", "case": ["ES", 2021, 1, 3, 2, [0, 1, 3], 0.002, 0.05, False]}])
    rep.assumptions = ["instants where no listed contract (plus offset) is live are outside the chain's span", "latency 0; decision time = previous grid point"]
    return rep.finish(replay)


def replay(case, **kw):
    if case["part"] == "lead":
        msgs, _ = check_lead(case["cls"], datetime(case["year"], 1, 1), datetime(case["year"] + case["span"] - 1, 12, 31), case["offset"])
        return msgs
    if case["part"] == "pair":
        c = case["case"]
        return run_pair(c[0], c[1], c[2], c[3])[0]
    c = case["case"]
    msgs, _ = run_roll(c[0], c[1], c[2], c[3], c[4], tuple(c[5]), *c[6:])
    return msgs or []


def probe():
    m, r = run_roll("ES", 2021, 1, 3, 2, (0, 1, 3), 0.002, 0.05, False)
    return repr((m, r)) + repr(check_lead("ZN", datetime(2020, 1, 1), datetime(2020, 12, 31), 1))

"""Explicit-state search over the reachable states of a real Broker (DESIGN 2.1)
with the R-LEDGER reference model advanced in lock-step (DESIGN 3).

Used by C01 and C05 directly; C03/C12/C13 take every state reached here as a
start state."""
from mcx.harness import *  # noqa
from mcx.common import close, seed
from collections import deque
memo_observed_events()

# ---------------------------------------------------------------------------
# alphabet

UNIVERSES = {
    # name: ((sym, mult, cash_req, margin_req), (..))
    "spot1+fut": (("S", 1.0, 1.0, 0.0), ("F", 2.0, 0.0, 0.25)),
    "spot4+fut": (("S4", 4.0, 1.0, 0.0), ("F", 2.0, 0.0, 0.25)),
    "fut+fut": (("F", 2.0, 0.0, 0.25), ("G", 4.0, 0.0, 1.0)),
    "etf+es": (("E", 1.0, 1.0, 0.0), ("ES", 50.0, 0.0, 0.1)),
    "spot+spot": (("S", 1.0, 1.0, 0.0), ("T", 2.0, 1.0, 0.0)),
    "halfmult": (("H", 0.5, 1.0, 0.0), ("F3", 0.5, 0.0, 0.5)),
    # the SAME symbols as "spot1+fut" with other specifications (a user re-defines a contract between two simulations of one
    # process): explored right after "spot1+fut" in the same worker process, and the other way round (checks/c01.py)
    "respec": (("S", 4.0, 1.0, 0.0), ("F", 4.0, 0.0, 0.5)),
    # three contracts (a target may then name only some of the held ones)
    "three": (("S", 1.0, 1.0, 0.0), ("F", 2.0, 0.0, 0.25), ("T", 2.0, 1.0, 0.0)),
}
# prices of the order of 1e-6 with multipliers of the order of 1e8 (explored with quotes scaled by MICRO): the same
# account values as "spot1+fut", but every absolute price move is far below any absolute tolerance an implementation might use
MICRO = 2.0 ** -26
# "penny": prices of the order of 1e-3 with ordinary multipliers, so weight targets hold tens of millions of units and a
# contract-count target then cuts such a position, in ONE trade, to a remainder that is tiny RELATIVE to the traded size
PENNY = 2.0 ** -16
MICRO_UNIVERSE = {"micro": (("SM", 2.0 ** 26, 1.0, 0.0), ("FM", 2.0 ** 27, 0.0, 0.25)),
                  "penny": (("PS", 1.0, 1.0, 0.0), ("PF", 2.0, 0.0, 0.25))}
UNIT_SCALE = {"micro": MICRO, "penny": PENNY}
FEES = [(0.0, 0.0), (1.0, 1.0 / 64), (1.0, 0.0), (0.0, 1.0 / 64), (2.0, 1.0 / 128), (0.0, 0.0002),
        (512.0, 0.0)]     # a fixed fee larger than the value of a few lots: such trades are still due
BASE_QUOTES = [(100.0, 100.0), (100.0, 104.0), (92.0, 96.0), (112.0, 112.0), (48.0, 52.0)]
TRADE_SIZES = [1.0, -1.0, 2.0, -2.0]
REBALANCES = [("weight", (0.5, 0.25)), ("weight", (-0.5, 0.0)), ("nr-contracts", (1.0, -1.0)), ("nr-contracts", (0.5, -0.25)),
              ("weight", (1.0, 0.5))]      # fully invested + margined: cash at or below zero, so margin calls exceed the idle cash
REBALANCES3 = [("weight", (0.5, 0.25, 0.125)), ("weight", (-0.5, 0.0, 0.25)), ("nr-contracts", (1.0, -1.0, 0.0)), ("nr-contracts", (0.5, 0.0, -0.25)),
               ("weight", (0.75, 0.5, 0.25))]


def rebalances_for(n):
    return REBALANCES if n == 2 else REBALANCES3
PALETTES = [(1.0, 65536.0), (0.5, 32768.0), (2.0, 131072.0), (1.375, 100000.0)]


def palette():
    return PALETTES[seed() % len(PALETTES)]


def unit_scale(universe, scale):
    """quote scale to use for a universe given the palette's scale"""
    return scale * UNIT_SCALE.get(universe, 1.0)


def contracts_of(universe):
    return tuple(UC(*spec) for spec in (UNIVERSES.get(universe) or MICRO_UNIVERSE[universe]))


def quotes_of(scale):
    return [(b * scale, a * scale) for b, a in BASE_QUOTES]


def alphabet(with_rebalance=True, nquotes=len(BASE_QUOTES), marks=True, ncontracts=2):
    """Simplest-first so that the first counterexample is the shortest."""
    ops = []
    for ci in range(ncontracts):
        for qi in range(nquotes):
            ops.append(("q", ci, qi))
    for ci in range(ncontracts):
        for dq in (TRADE_SIZES if ncontracts == 2 else TRADE_SIZES[:3]):
            ops.append(("t", ci, dq))
    ops.append(("v",))
    if marks:
        ops.append(("m",))
        for ci in range(ncontracts):
            ops.append(("m1", ci))
    if with_rebalance:
        for ri in range(len(rebalances_for(ncontracts))):
            ops.append(("r", ri))
    return ops


# ---------------------------------------------------------------------------
# reference ledger (exact arithmetic, written from the statement of C01/C05)

class Ledger:
    __slots__ = ("D", "I", "K", "pos", "mag")

    def __init__(self, deposit, syms):
        self.D = Fr(deposit)
        self.I = Fr(0)
        self.K = Fr(0)
        self.pos = {s: (Fr(0), Fr(0)) for s in syms}   # sym -> (position, cost basis)
        self.mag = {}                                   # sym -> largest quantity ever held or traded (scale of float rounding)

    def copy(self):
        o = Ledger.__new__(Ledger)
        o.D, o.I, o.K, o.pos, o.mag = self.D, self.I, self.K, dict(self.pos), dict(self.mag)
        return o

    def trade(self, contract, dq, bid, ask, fixed, proportional):
        px = Fr(ask) if dq > 0 else Fr(bid)
        q, B = self.pos.get(contract.symbol, (Fr(0), Fr(0)))
        self.pos[contract.symbol] = (q + Fr(dq), B + Fr(dq) * px)
        self.mag[contract.symbol] = max(self.mag.get(contract.symbol, 0.0), abs(float(q)), abs(float(dq)))
        self.K += Fr(fixed) + Fr(proportional) * abs(px * Fr(dq) * Fr(contract.multiplier))

    def nlv(self, exchange, contracts):
        v = self.D + self.I - self.K
        for c in contracts:
            q, B = self.pos.get(c.symbol, (Fr(0), Fr(0)))
            if q != 0:
                book = exchange[c]
                liq = book.bid_price if q > 0 else book.ask_price
                if liq != liq:
                    return None
                v += Fr(c.multiplier) * (q * Fr(liq) - B)
            else:
                v += Fr(c.multiplier) * (-B)
        return v

    def margin(self, exchange, c):
        q, _ = self.pos.get(c.symbol, (Fr(0), Fr(0)))
        if q == 0 or c.margin_requirement == 0:
            return Fr(0)
        book = exchange[c]
        liq = book.bid_price if q > 0 else book.ask_price
        return Fr(c.margin_requirement) * Fr(c.multiplier) * abs(q) * Fr(liq)

    def qty(self, c):
        return self.pos.get(c.symbol, (Fr(0), Fr(0)))[0]


def fclose(got, exp, tol=1e-9):
    got = float(got)
    exp = float(exp)
    return abs(got - exp) <= tol * max(1.0, abs(exp), abs(got))


# ---------------------------------------------------------------------------
# one transition on the real broker + reference, and the oracles

def _quotes(scale):
    """`scale` is either a number (scaling BASE_QUOTES) or an explicit quote list"""
    if isinstance(scale, (list, tuple)):
        return [tuple(q) for q in scale]
    return quotes_of(scale)


def initial(universe, fee, scale, deposit, rate=0.0, epsilon=None):
    cs = contracts_of(universe)
    q0 = _quotes(scale)[0]
    b = make_broker(cs, deposit=deposit, fixed=fee[0], proportional=fee[1], quote=q0, rate=rate, markup=(0.01 if rate else 0.0), epsilon=epsilon)
    if rate:
        # start the accrual clock (as a first rebalance would) so that later rebalances do accrue interest
        b.accrued_interest(T0, True)
    return b, Ledger(deposit, [c.symbol for c in cs]), cs


def apply_op(b, ref, cs, op, scale, fee):
    """Apply one operation to the REAL broker `b` (mutated) and to a copy of the
    reference; returns (new_ref, problems) where problems is a list of
    (property, message) found at this transition's own observation points."""
    problems = []
    ref = ref.copy()
    kind = op[0]
    if kind == "q":
        c = cs[op[1]]
        bid, ask = _quotes(scale)[op[2]]
        b.exchange.process_EventNBBO(EventNBBO(T0, c, bid, ask))
    elif kind == "t":
        c = cs[op[1]]
        dq = op[2]
        book = b.exchange[c]
        bid, ask = book.bid_price, book.ask_price
        tr = Trade(T0, c, dq, bid, ask, b.fees)
        b.transact(tr)
        ref.trade(c, dq, bid, ask, fee[0], fee[1])
        # C05: for the traded contract immediately after any trade
        exp_m = ref.margin(b.exchange, c)
        got_m = b.holdings_margins.get(c, 0.0)
        if not fclose(got_m, exp_m):
            problems.append(("C05", "margin of traded contract %s right after trade %+g is %r, expected %r"
                             % (c.symbol, dq, got_m, float(exp_m))))
    elif kind == "v":
        b.net_liquidation_value(False)
    elif kind == "m":
        b.marking_to_market()
        for c in cs:
            exp_m = ref.margin(b.exchange, c)
            got_m = b.holdings_margins.get(c, 0.0)
            if not fclose(got_m, exp_m):
                problems.append(("C05", "margin of %s after marking_to_market() is %r, expected %r"
                                 % (c.symbol, got_m, float(exp_m))))
    elif kind == "m1":
        c = cs[op[1]]
        b.marking_to_market(c)
        exp_m = ref.margin(b.exchange, c)
        got_m = b.holdings_margins.get(c, 0.0)
        if not fclose(got_m, exp_m):
            problems.append(("C05", "margin of %s after marking_to_market(%s) is %r, expected %r"
                             % (c.symbol, c.symbol, got_m, float(exp_m))))
    elif kind == "r":
        measure, alloc = rebalances_for(len(cs))[op[1]]
        now = (b._last_accrual or T0) + timedelta(days=1)
        rb = Rebalancing(contracts=list(cs), allocation=list(alloc), measure=measure, time=now)
        books = {c.symbol: (b.exchange[c].bid_price, b.exchange[c].ask_price) for c in cs}
        b.rebalance(rb)
        ref.I += Fr(float(rb.profit_on_idle_cash))
        for tr in rb.trades:
            bid, ask = books[tr.contract.symbol]
            if tr.bid_price != bid or tr.ask_price != ask:
                problems.append(("C01", "rebalance trade in %s built from quotes %r/%r, book has %r/%r"
                                 % (tr.contract.symbol, tr.bid_price, tr.ask_price, bid, ask)))
            ref.trade(tr.contract, tr.quantity, bid, ask, fee[0], fee[1])
        # context_post is an observation point
        exp = ref.nlv(b.exchange, cs)
        if not fclose(rb.context_post.nlv, exp):
            problems.append(("C01", "context_post.nlv %r, ledger says %r" % (rb.context_post.nlv, float(exp))))
    else:
        raise ValueError(op)
    return ref, problems


def observe(ob, ref, cs):
    """Value the account on a COPY of the broker and compare every observable the
    statements of C01 and C05 name.  Returns list of (property, message)."""
    problems = []
    margined_open = any(c.margin_requirement > 0 and ref.qty(c) != 0 for c in cs)
    pre = snap(ob) if margined_open else None      # the state BEFORE any valuation, for reports asked first (see below)
    try:
        got = ob.net_liquidation_value(False)
    except Exception as ex:  # valuation must not fail with full quotes
        return [("C01", "valuation raised %r" % (ex,))], None
    exp = ref.nlv(ob.exchange, cs)
    if not fclose(got, exp):
        problems.append(("C01", "NLV %r but deposit+interest-commissions+sum m*(q*liq-cost) = %r (diff %g)"
                         % (got, float(exp), got - float(exp))))
    hq = ob.holdings_quantity
    hm = ob.holdings_margins
    for c in cs:
        # the implementation adds quantities in floats: a sum is exact only up to an ulp of its LARGEST operand (3.7e-9 for
        # 2e7 units), so the tolerance also scales with the largest quantity this contract has been held or traded in
        if not fclose(hq.get(c, 0.0), ref.qty(c)) and abs(float(hq.get(c, 0.0)) - float(ref.qty(c))) > 1e-12 * ref.mag.get(c.symbol, 0.0):
            problems.append(("C01", "position in %s is %r, ledger says %r" % (c.symbol, hq.get(c, 0.0), float(ref.qty(c)))))
    # C05: margin identity and decomposition at a valuation point
    total = Fr(float(hq.get(ob.base_currency, 0.0)))
    for c in cs:
        exp_m = ref.margin(ob.exchange, c)
        got_m = hm.get(c, 0.0)
        if got_m < 0:
            problems.append(("C05", "negative margin %r for %s" % (got_m, c.symbol)))
        if not fclose(got_m, exp_m):
            problems.append(("C05", "margin of %s after valuation is %r, expected req*mult*|q|*liq = %r"
                             % (c.symbol, got_m, float(exp_m))))
        total += Fr(float(got_m))
        q = ref.qty(c)
        if c.cash_requirement == 1.0 and q != 0:
            total += q * Fr(liq_side(ob.exchange[c], q)) * Fr(c.multiplier)
    if not fclose(total, got):
        problems.append(("C05", "cash + margins + fully-paid liquidation values = %r but reported NLV = %r"
                         % (float(total), got)))
    if got > 0:
        try:
            w = ob.holdings_weights()
            for c in cs:
                q = ref.qty(c)
                expw = (q * Fr(liq_side(ob.exchange[c], q)) * Fr(c.multiplier)) / Fr(got) if q != 0 else Fr(0)
                if not fclose(w.get(c, 0.0), expw):
                    problems.append(("C05", "weight of %s reported %r, expected q*liq*mult/NLV = %r"
                                     % (c.symbol, w.get(c, 0.0), float(expw))))
            # the cash entry, and the same report when holdings_weights() is the FIRST valuation after the last quote
            cash_w = Fr(float(hq.get(ob.base_currency, 0.0))) / Fr(got)
            if not fclose(w.get(ob.base_currency, 0.0), cash_w):
                problems.append(("C05", "weight of cash reported %r, expected cash/NLV = %r" % (w.get(ob.base_currency, 0.0), float(cash_w))))
            if pre is not None:
                w1 = unsnap(pre).holdings_weights()
                for c in list(cs) + [ob.base_currency]:
                    if not fclose(w1.get(c, 0.0), w.get(c, 0.0)):
                        problems.append(("C05", "holdings_weights() asked before any other valuation reports %r for %s, after a valuation %r"
                                         % (w1.get(c, 0.0), getattr(c, "symbol", c), w.get(c, 0.0))))
            nv = ob.holdings_values()
            for c in cs:
                q = ref.qty(c)
                expn = q * Fr(liq_side(ob.exchange[c], q)) * Fr(c.multiplier) if q != 0 else Fr(0)
                if not fclose(nv.get(c, 0.0), expn):
                    problems.append(("C05", "notional value of %s reported %r, expected q*liq*mult = %r" % (c.symbol, nv.get(c, 0.0), float(expn))))
            lv = ob.holdings_values(kind="liquidation")
            if not fclose(sum(lv.values()), got):
                problems.append(("C05", "holdings_values('liquidation') sums to %r, NLV %r" % (sum(lv.values()), got)))
            ctx = ob.context()
            if not fclose(ctx.nlv, got):
                problems.append(("C05", "context().nlv %r differs from NLV %r" % (ctx.nlv, got)))
            for c in cs:
                if not fclose(ctx.margins.get(c, 0.0), ref.margin(ob.exchange, c)):
                    problems.append(("C05", "context().margins[%s] = %r, expected %r"
                                     % (c.symbol, ctx.margins.get(c, 0.0), float(ref.margin(ob.exchange, c)))))
        except Exception as ex:
            problems.append(("C05", "observation raised %r" % (ex,)))
    return problems, got


# ---------------------------------------------------------------------------
# BFS

def bfs(universe, fee, depth, scale, deposit, ops, rate=0.0, on_state=None, max_states=None, first_ops=None, expand_violating=False, epsilon=None):
    """Breadth-first search.  Returns dict with counters, violations (list of
    (property, history, message)) and, if on_state is given, calls
    on_state(snapshot_bytes, ref, hist, depth) for every distinct state."""
    reset_clock()
    b0, ref0, cs = initial(universe, fee, scale, deposit, rate, epsilon)
    seen = {broker_key(b0, cs)}
    frontier = deque([(snap(b0), ref0, ())])
    per_depth = [1]
    transitions = 0
    outcomes = set()
    viol = []
    capped = False
    last_hist = ()
    if on_state:
        on_state(frontier[0][0], ref0, (), 0)
    while frontier:
        sb, ref, hist = frontier.popleft()
        if len(hist) >= depth:
            continue
        for op in (first_ops if (first_ops is not None and not hist) else ops):
            b = unsnap(sb)
            try:
                nref, problems = apply_op(b, ref, cs, op, scale, fee)
            except Exception as ex:
                transitions += 1
                viol.append(("C01", hist + (op,), "operation %r raised %r" % (op, ex)))
                continue
            transitions += 1
            nsb = snap(b)
            obs_problems, nlv = observe(unsnap(nsb), nref, cs)
            problems = problems + obs_problems
            if not problems and nlv is not None and nlv > 0:
                # weights asked FIRST on a copy that has not been valued since the operation
                try:
                    w2 = unsnap(nsb).holdings_weights()
                    for c in cs:
                        q = nref.qty(c)
                        expw = (q * Fr(liq_side(b.exchange[c], q)) * Fr(c.multiplier)) / Fr(nlv) if q != 0 else Fr(0)
                        if not fclose(w2.get(c, 0.0), expw):
                            problems.append(("C05", "weight of %s asked before any valuation is %r, expected %r" % (c.symbol, w2.get(c, 0.0), float(expw))))
                except Exception as ex:
                    problems.append(("C05", "holdings_weights() raised %r" % (ex,)))
            if problems:
                for pid, msg in problems:
                    viol.append((pid, hist + (op,), msg))
                if not expand_violating:
                    continue  # do not expand a violating state (avoids cascades)
            outcomes.add(nlv)
            k = broker_key(b, cs)
            if k not in seen:
                if max_states is not None and len(seen) >= max_states:
                    capped = True
                    continue
                seen.add(k)
                d = len(hist) + 1
                while len(per_depth) <= d:
                    per_depth.append(0)
                per_depth[d] += 1
                last_hist = hist + (op,)
                frontier.append((nsb, nref, hist + (op,)))
                if on_state:
                    on_state(nsb, nref, hist + (op,), d)
    return {"states": len(seen), "transitions": transitions, "per_depth": per_depth,
            "distinct_nlv": len(outcomes), "violations": viol, "capped": capped,
            "last_history": [list(o) for o in last_hist]}


def replay_history(universe, fee, scale, deposit, hist, rate=0.0):
    """Re-execute one history from the initial state with all oracles; returns
    list of (property, step index, message)."""
    reset_clock()
    b, ref, cs = initial(universe, tuple(fee), scale, deposit, rate)
    out = []
    for i, op in enumerate(hist):
        op = tuple(op)
        try:
            ref, problems = apply_op(b, ref, cs, op, scale, tuple(fee))
        except Exception as ex:
            out.append(("C01", i, "operation %r raised %r" % (op, ex)))
            break
        obs_problems, _ = observe(unsnap(snap(b)), ref, cs)
        for pid, msg in problems + obs_problems:
            out.append((pid, i, msg))
        if out:
            break
    return out


def collect_states(universe, fee, depth, scale, deposit, ops, rate=0.0, epsilon=None):
    """Every distinct state reachable within `depth` operations, as
    (snapshot bytes, reference ledger, history)."""
    out = []
    # states that C01/C05's own oracles object to are kept as start states all the same: the checks that start from them
    # (C03, C12, C13) judge their own statement there, they must not go blind where another property is broken too
    r = bfs(universe, fee, depth, scale, deposit, ops, rate=rate, expand_violating=True, epsilon=epsilon,
            on_state=lambda sb, ref, hist, d: out.append((sb, ref, hist)))
    return out, r

"""Deviation-bounded enumeration (DESIGN 2.2): every assignment of finite menus
whose number of non-default choices is <= bound, cheapest first."""
import itertools


def deviations(menus, bound):
    """menus: list of (name, [default, alt1, alt2, ...]).  Yields (cost, dict)."""
    names = [n for n, _ in menus]
    defaults = {n: alts[0] for n, alts in menus}
    alts = {n: a[1:] for n, a in menus}
    for cost in range(0, bound + 1):
        for subset in itertools.combinations(names, cost):
            if any(not alts[n] for n in subset):
                continue
            for choice in itertools.product(*[alts[n] for n in subset]):
                cfg = dict(defaults)
                for n, c in zip(subset, choice):
                    cfg[n] = c
                yield cost, cfg


def multisets(items, max_size):
    """All multisets (as sorted tuples of indices) of size 0..max_size."""
    for k in range(0, max_size + 1):
        for m in itertools.combinations_with_replacement(range(len(items)), k):
            yield m


def shard(seq, n):
    seq = list(seq)
    return [seq[i::n] for i in range(n) if seq[i::n]]
